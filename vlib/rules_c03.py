"""C03 — honest traces satisfy the AIR: writer (processor handlers) / reader (AIR constraints) agreement over all
operations, decided on the operation model (abstract interpretation of Process::execute_op) and the restricted
constraint polynomials."""
import re, collections
from .mirutil import *
from .mirsym import Interp, Term, Agg, Ptr, Opaque, Unanalysable, PanicReached, deref, SlicePtr
from .mirsym import Poly, Sup, Term, P
from . import opmodel, procmodel, docspec
from .rules_c04 import AirView, unit_multiple, doc_instances

LEVEL = "other"

CONTROL = ["Join", "Split", "Loop", "Call", "SysCall", "Dyn", "Span", "Repeat", "Respan", "End", "Halt"]
UNMODELLED = {"FriE2F4": "reads a symbolic domain segment index (array index by a stack value)",
              "RCombBase": "quadratic-extension arithmetic through winter-math types that the operation model does not interpret"}


def models(F):
    out = {}
    for v in opmodel.operation_variants(F):
        n = v["name"]
        if n in CONTROL:
            continue
        out[n] = (procmodel.run_operation(F, n, depth_gt16=False), procmodel.run_operation(F, n, depth_gt16=True))
    return out


def r1_coverage(ctx, F, M):
    npaths = 0
    for op, (rs, rs2) in sorted(M.items()):
        oks = [r for r in rs if r.outcome == "ok"]
        una = [r for r in rs if isinstance(r.outcome, tuple) and r.outcome[0] in ("unanalysable", "unknown")]
        if una and op not in UNMODELLED:
            ctx.violation("UNANALYSABLE|%s" % op, "processor/src/operations", "handler of %s cannot be analysed: %s" % (op, una[0].outcome[1]))
            continue
        if op in UNMODELLED and not oks:
            ctx.analysed("%s: not modelled (%s)" % (op, UNMODELLED[op]))
            continue
        if not oks:
            ctx.violation("no-ok-path|%s" % op, "processor/src/operations", "handler of %s has no successful path" % op)
        for pi, r in enumerate(oks):
            npaths += 1
            missing = [i for i, x in enumerate(r.nxt) if x is None]
            ctx.inst(key="%s#%d" % (op, pi), nontrivial=len(r.guards) > 0)
            ctx.oblig(not missing)
            if missing:
                ctx.violation("stale-cell|%s|%s" % (op, ",".join(map(str, missing))), "processor/src/operations",
                              "on a successful path of %s (guards %s) next-row stack positions %s are written by nothing: the trace row keeps stale values"
                              % (op, [(str(g[0])[:40], g[1]) for g in r.guards], missing))
            if len(r.shift) != 1:
                ctx.violation("shift-count|%s" % op, "processor/src/operations", "%s calls %d copy/shift primitives on one path (exactly one writes b0,b1,h0): %s" % (op, len(r.shift), r.shift))
            adv = [e for e in r.effects if e[0] == "advance_clock"]
            if len(adv) != 1:
                ctx.violation("clock|%s" % op, "processor/src/operations/mod.rs", "%s advances the clock %d times on a successful path" % (op, len(adv)))
        if oks and len(ctx.samples) < 6:
            ctx.sample({"op": op, "paths": len(rs), "ok_paths": len(oks), "shift": oks[0].shift, "next_row": [str(x)[:16] for x in oks[0].nxt[:6]]})
    ctx.floor("handlers", len(M), 76)
    ctx.floor("ok-paths", npaths, 90)


def control_handlers(F):
    """control operation -> set of Operation variants the decoder passes to execute_op for it (the decoder's Process methods
    are interpreted as skeletons: private helpers of the same impl are inlined, every other callee returns an unknown)"""
    from . import execmodel
    out = {}

    def ops_in(fn):
        s = set()
        ps = execmodel.skeleton_paths(F, fn, r"^miden_processor::decoder::Process::", r"Process::execute_op$", lambda: execmodel.havoc_args(fn))
        for p in ps:
            if p["outcome"][0] == "unanalysable":
                raise Unanalysable("%s: %s" % (fn.id, p["outcome"][1]))
            if p["outcome"] != ("ok",):
                continue
            evs = [e for e in p["events"] if e[0] == "execute_op"]
            if len(evs) != 1:
                s.add("%d execute_op calls" % len(evs))
                continue
            o = evs[0][1][0]
            s.add(o.variant if isinstance(o, Agg) else repr(o))
        return s
    W = {"Join": ["start_join_block"], "Split": ["start_split_block"], "Loop": ["start_loop_block"], "Call": ["start_call_block"],
         "SysCall": ["start_call_block"], "Dyn": ["start_dyn_block"], "Span": ["start_span_block"],
         "End": ["end_join_block", "end_split_block", "end_loop_block", "end_call_block", "end_dyn_block", "end_span_block"]}
    for op, ws in W.items():
        s = set()
        for w in ws:
            s |= ops_in(F.fn(r"^miden_processor::decoder::Process::%s$" % w))
        out[op] = s
    # REPEAT / RESPAN: the execute_op following Decoder::repeat / Process::respan in the executors
    for op, callee, fnpat in (("Repeat", r"Decoder::repeat$", r"^miden_processor::Process::execute_loop_block$"),
                              ("Respan", r"Process::respan$", r"^miden_processor::Process::execute_span_block$")):
        fn = F.fn(fnpat)
        s = set()
        for bi, c, t in fn.calls():
            if re.search(callee, c):
                # first execute_op reachable after it
                seen, st = set(), [t["to"]]
                while st:
                    b = st.pop()
                    if b in seen:
                        continue
                    seen.add(b)
                    tt = fn.blocks[b]["t"]
                    if tt["k"] == "call" and tt["f"].get("fn", "").endswith("Process::execute_op"):
                        r = def_rvalue(fn, tt["args"][1])
                        if r and r["k"] == "agg":
                            s.add(r["variant"])
                        continue
                    st.extend(fn.succs(b))
        out[op] = s
    return out


def r2_shift_class(ctx, F, M):
    V = AirView(F)
    docs = {var: (sec, n, base) for var, sec, n, base in doc_instances(V) if var}
    n = 0
    for op, (rs, rs2) in sorted(M.items()):
        oks = [r for r in rs if r.outcome == "ok"]
        if not oks:
            continue
        kinds = set(r.shift[0] for r in oks if r.shift)
        ctx.inst(key=op, nontrivial=True)
        n += 1
        # (d) documentation: every documented cell effect must be what the handler does, on every ok path
        if op in docs:
            sec, nn, base = docs[op]
            try:
                eff = docspec.effects_of(sec, nn)
            except ValueError as e:
                eff = {}
            for r in oks:
                for cell, src in eff.items():
                    ok = isinstance(r.nxt[cell], Poly) and r.nxt[cell] == Poly.var("s%d" % src)
                    ctx.oblig(ok)
                    if not ok:
                        ctx.violation("doc-vs-handler|%s|s%d'" % (op, cell), "%s:%d" % (sec.file, sec.line),
                                      "the specification says s%d' = s%d under %s but the handler writes %s" % (cell, src, op, r.nxt[cell]))
        # (c) opcode prefix classes for degree-7 operations
        oc = V.ops[op]
        if oc < 64:
            pre = oc >> 4
            want = {0b010: "left", 0b011: "right"}.get(pre)
            got = set(k for k, s in kinds)
            if want and got != {want}:
                ctx.violation("opcode-prefix|%s" % op, "core/src/operations/mod.rs", "opcode %s of %s lies in the %s-shift prefix class but the handler does %s" % (bin(oc), op, want, sorted(got)))
            if not want and pre in (0b000, 0b001) and got != {"copy"}:
                ctx.violation("opcode-prefix|%s" % op, "core/src/operations/mod.rs", "opcode %s of %s lies in the no-shift prefix class but the handler does %s" % (bin(oc), op, sorted(got)))
    ctx.floor("ops-with-shift-class", n, 74)
    # control operations: handler = the operation the decoder executes for the row
    CH = control_handlers(F)
    dec = docspec.decoder_table()
    for cop, hs in sorted(CH.items()):
        ctx.inst(key="ctl" + cop, nontrivial=True)
        kind = dec.get(cop.upper())
        want = {"none": {"Noop"}, "left": {"Drop"}, "end": {"Noop", "Drop"}}.get(kind)
        ctx.analysed("%s executes %s (documented effect %s)" % (cop, sorted(hs), kind))
        ctx.oblig(want is not None and hs == want)
        if want is None or hs != want:
            ctx.violation("control-handler|%s" % cop, "processor/src/decoder/mod.rs", "control operation %s is executed as %s but its documented stack effect is %r" % (cop, sorted(hs), kind))


def subst_env(V, r, fmp_next=None):
    """variable substitution for constraint polynomials from one handler path"""
    env = {}
    STK = V.STK
    ren = {"s%d" % i: "c%d" % (STK + i) for i in range(16)}
    ren["fmp"] = "c%d" % V.F.const(r"^miden_air::trace::FMP_COL_IDX$")
    ren["felt[clk]"] = "c%d" % V.F.const(r"^miden_air::trace::CLK_COL_IDX$")
    ren["felt[depth]"] = "c%d" % (STK + 16)

    def rn(p):
        if not isinstance(p, Poly):
            return None
        out = {}
        for m, c in p.t.items():
            mm = tuple(sorted((ren.get(v, v), e) for v, e in m))
            out[mm] = (out.get(mm, 0) + c) % P
        return Poly({m: c for m, c in out.items() if c})
    for i, x in enumerate(r.nxt):
        env["n%d" % (STK + i)] = rn(x)
    for j, h in enumerate(r.helpers or []):
        env["c%d" % (V.A.helpers + j)] = rn(h)
    for e in r.effects:
        if e[0] == "set_fmp":
            env["n%d" % V.F.const(r"^miden_air::trace::FMP_COL_IDX$")] = rn(e[1])
    # equalities from guards (constant propagation only; contradictory guards => infeasible syntactic path)
    eqs = {}
    neqs = []
    for cond, val, loc in r.guards:
        d = None
        is_eq = None
        if isinstance(cond, Term) and cond.op in ("eq", "ne") and len(cond.args) == 2 and isinstance(cond.args[0], Poly) and isinstance(cond.args[1], Poly):
            truth = (val != 0) if not isinstance(val, tuple) else True
            is_eq = (cond.op == "eq") == truth
            d = rn(cond.args[0] - cond.args[1])
        elif isinstance(cond, Term) and cond.op == "as_int" and isinstance(cond.args[0], Poly):
            if isinstance(val, int):
                d, is_eq = rn(cond.args[0]) - Poly.const(val), True
            else:
                for c in val[1]:
                    neqs.append(rn(cond.args[0]) - Poly.const(c))
        if d is None:
            continue
        d = d.subst(eqs) if eqs else d
        if is_eq:
            if d.is_zero():
                continue
            if d.const_value() is not None:
                return None, None, rn       # c == 0 with c != 0: infeasible
            if d.degree() == 1:
                v = sorted(d.vars())[-1]
                a = d.coeff_of(v, 1).const_value()
                if a:
                    rest = d.without(v)
                    sol = rest.scale((-pow(a, -1, P)) % P)
                    eqs = {k: x.subst({v: sol}) for k, x in eqs.items()}
                    eqs[v] = sol
        else:
            neqs.append(d)
    for d in neqs:
        d = d.subst(eqs) if eqs else d
        if d.is_zero():
            return None, None, rn           # x != x: infeasible
    return env, eqs, rn


def reduce_inv(p, rn):
    """use x*inv[x] = 1 (x != 0 on the path): returns polynomial equivalent to p up to multiplication by non-zero x"""
    for _ in range(6):
        iv = [v for v in p.vars() if v.startswith("inv[")]
        if not iv:
            break
        y = iv[0]
        x = INV_REG.get(y)
        if x is None or p.degree_in(y) != 1:
            break
        A = p.coeff_of(y, 1)
        B = p.without(y)
        p = A + rn(x) * B
    return p


from .mirsym import INV_REG


U32_OPERANDS = {"U32add": 2, "U32sub": 2, "U32mul": 2, "U32div": 2, "U32add3": 3, "U32madd": 3, "U32and": 2, "U32xor": 2}


def int_normalise(V, op, r, q, rn):
    """rewrite the machine-integer terms of a residual constraint into their integer normal form (vlib/intnorm.py), add the
    relations given by the path's guards on integer terms, eliminate and return the remaining polynomial (None if not applicable)"""
    from .intnorm import Norm, NormError
    bounds = {"as_int(s%d)" % i: 2 ** 32 - 1 for i in range(U32_OPERANDS.get(op, 0))}
    # bounds established by the path's own guards (e.g. the u32 checks of U32ASSERT2)
    for cond, val, loc in r.guards:
        if isinstance(cond, Term) and cond.op in ("<=", ">", "<", ">=") and len(cond.args) == 2 and isinstance(cond.args[1], int):
            tv = (val == ("not", [0])) if isinstance(val, tuple) else bool(val)
            c = cond.args[1]
            upper = {"<=": c if tv else None, ">": None if tv else c, "<": (c - 1) if tv else None, ">=": None if tv else c - 1}[cond.op]
            if upper is not None:
                k = repr(cond.args[0])
                bounds[k] = min(bounds.get(k, upper), upper)
    N = Norm(bounds, procmodel.FELT_TERMS)
    sub = {}
    try:
        for v in q.vars():
            if v in procmodel.FELT_TERMS:
                pv, ub = N.val(procmodel.FELT_TERMS[v])
                if ub >= P:
                    return None
                sub[v] = rn(pv)
        q2 = q.subst(sub)
        rels = []
        for cond, val, loc in r.guards:
            if isinstance(cond, Term) and cond.op in ("&", ">>", "as_int", "as_u32", "as_u64", "/", "+", "-", "*"):
                try:
                    pv, ub = N.val(cond)
                except NormError:
                    continue
                pv = rn(pv)
                if isinstance(val, int) and not isinstance(val, bool):
                    rels.append(pv - Poly.const(val))
                elif isinstance(val, tuple) and val[0] == "not" and ub <= 1 and len(val[1]) == 1:
                    rels.append(pv - Poly.const(1 - val[1][0]))
    except NormError:
        return None
    # bits: a^2 = a
    def reduce_bits(pp):
        out = {}
        for m, c in pp.t.items():
            mm = tuple(sorted((v, 1 if v in N.binary else e) for v, e in m))
            out[mm] = (out.get(mm, 0) + c) % P
        return Poly({m: c for m, c in out.items() if c})
    q2 = reduce_bits(q2)
    # eliminate with the guard relations (a variable occurring linearly with a constant coefficient)
    for rel in rels:
        rel = reduce_bits(rel)
        if rel.is_zero():
            continue
        done = False
        for v in sorted(rel.vars(), key=lambda x: (not x.startswith(("hi", "quot")), x)):
            if rel.degree_in(v) == 1:
                co = rel.coeff_of(v, 1)
                if co.const_value():
                    sol = rel.without(v).scale((-pow(co.const_value(), -1, P)) % P)
                    q2 = reduce_bits(q2.subst({v: sol}))
                    rels = [x.subst({v: sol}) for x in rels]
                    done = True
                    break
    return q2


def r3_substitution(ctx, F, M):
    V = AirView(F)
    lo, hi = V.srange
    allowed_prefix = ("c%d" % V.F.const(r"^miden_air::trace::CLK_COL_IDX$"),)
    STK = V.STK
    ok_cols = set(["c%d" % (STK + i) for i in range(16)] + ["n%d" % (STK + i) for i in range(16)] +
                  ["c%d" % (V.A.helpers + j) for j in range(6)] + ["c0", "c1", "n1", "c%d" % (STK + 16)])
    total = undec = 0
    for op, (rs, rs2) in sorted(M.items()):
        polys = V.by_name[op]
        cons = [(i, p) for i, p in enumerate(polys[lo:hi], lo) if isinstance(p, Poly) and not p.is_zero() and p.vars() <= ok_cols]
        for variant, paths in (("depth16", rs), ("depth>16", rs2)):
            for pi, r in enumerate(paths):
                if r.outcome != "ok":
                    continue
                # register inverse variables of this path
                for x in list(r.nxt) + list(r.helpers or []):
                    if isinstance(x, Poly):
                        for v in x.vars():
                            if v.startswith("inv[") and v not in INV_REG:
                                pass
                env, eqs, rn = subst_env(V, r)
                if env is None:
                    ctx.extra["infeasible_paths_skipped"] = ctx.extra.get("infeasible_paths_skipped", 0) + 1
                    continue
                for ci, p in cons:
                    total += 1
                    q = p.subst({k: v for k, v in env.items() if v is not None})
                    q = q.subst(eqs) if eqs else q
                    q = reduce_inv(q, rn)
                    q = q.subst(eqs) if eqs else q
                    key = "%s|%s|c%d" % (op, variant, ci)
                    ctx.inst(key=key, nontrivial=bool(r.guards))
                    if q.is_zero():
                        ctx.oblig(True)
                        continue
                    opaque = [v for v in q.vars() if not re.match(r"^[cn]\d+$", v)]
                    unsub = [v for v in q.vars() if v.startswith("n") or v.startswith("c%d" % V.A.helpers)]
                    if opaque or unsub:
                        q2 = int_normalise(V, op, r, q, rn)
                        if q2 is not None and q2.is_zero():
                            ctx.oblig(True)
                            ctx.extra["decided_by_integer_normal_form"] = ctx.extra.get("decided_by_integer_normal_form", 0) + 1
                            continue
                        if q2 is not None and not [v for v in q2.vars() if not re.match(r"^[cn]\d+$|^hi\d+<|^quot<", v)]:
                            ctx.oblig(False)
                            ctx.violation("handler-vs-constraint|%s|int|%s" % (op, V.pretty(q2).replace(" ", "")[:120]), "processor/src/operations",
                                          "substituting the next row and helper values computed by the %s handler (%s) into transition constraint #%d leaves %s after integer normalisation (x = low + 2^k*high, a = q*b + r): an honest trace of %s violates the AIR"
                                          % (op, variant, ci, V.pretty(q2)[:200], op), facts={"constraint": V.pretty(p)})
                            continue
                        undec += 1      # depends on values the model treats as fresh (memory, advice, hasher results): not decided
                        ctx.extra.setdefault("undecided_list", []).append("%s|%s|c%d: %s" % (op, variant, ci, V.pretty(q2 if q2 is not None else q)[:120]))
                        continue
                    ctx.oblig(False)
                    ctx.violation("handler-vs-constraint|%s|%s" % (op, V.pretty(q).replace(" ", "")), "processor/src/operations",
                                  "substituting the next row written by the %s handler (path guards %s, %s) into transition constraint #%d leaves %s, which is not identically zero: "
                                  "an honest trace of %s violates the AIR" % (op, [(str(g[0])[:30], g[1]) for g in r.guards], variant, ci, V.pretty(q), op),
                                  facts={"constraint": V.pretty(p)})
        if len(ctx.samples) < 8 and cons:
            ctx.sample({"op": op, "constraints_checked": len(cons), "example": V.pretty(cons[-1][1])[:160]})
    ctx.extra["substitutions"] = total
    ctx.extra["undecided_fresh_values"] = undec
    ctx.floor("substitution-obligations", total, 1500)


def r4_helpers(ctx, F, M):
    V = AirView(F)
    lo, hi = V.srange
    rc_callers = []
    for op, (rs, rs2) in sorted(M.items()):
        polys = [p for p in V.by_name[op][lo:hi] if isinstance(p, (Poly, Sup))]
        need = -1
        for j in range(6):
            if any(("c%d" % (V.A.helpers + j)) in p.vars() for p in polys):
                need = j
        oks = [r for r in rs if r.outcome == "ok"]
        ctx.inst(key=op, nontrivial=need >= 0)
        for r in oks:
            got = len(r.helpers or [])
            ctx.oblig(got >= need + 1)
            if got < need + 1:
                ctx.violation("helpers|%s" % op, "processor/src/operations", "the constraints of %s read user_op_helper(%d) but the handler sets only %d helper values" % (op, need, got))
            rcs = [e for e in r.effects if e[0] == "range_checks"]
            if rcs:
                rc_callers.append(op)
            pre100 = (V.ops[op] >> 4) == 0b100
            if pre100 != (len(rcs) == 1):
                ctx.violation("range-check-requester|%s" % op, "processor/src/operations/u32_ops.rs",
                              "%s (opcode prefix %s) adds %d range-check requests; exactly the prefix-100 operations must add one (the AIR's b_range column gates the 4 stack lookups by that prefix)"
                              % (op, bin(V.ops[op] >> 4), len(rcs)))
            for e in rcs:
                vals = e[1][1] if len(e[1]) > 1 else None
    ctx.sample({"range_check_requesters": sorted(set(rc_callers))})
    ctx.floor("range-check-requesters", len(set(rc_callers)), 8)


def r5_decoder_rows(ctx, F):
    """every DecoderTrace::append_* grows each of the 24 column vectors by exactly one row on every path, and the two
    degree-reduction columns hold b6(1-b5)b4 and b6*b5 (abstract interpretation on a trace holding one earlier row)"""
    from .mirsym import Interp, Agg, Ptr, enumerate_paths, Unanalysable, PanicReached
    adt = F.adt(r"^miden_processor::decoder::trace::DecoderTrace$")
    fields = adt["variants"][0]["fields"]
    consts = {"NUM_OP_BITS": F.const(r"^miden_air::trace::decoder::NUM_OP_BITS$"), "NUM_HASHER_COLUMNS": F.const(r"^miden_air::trace::decoder::NUM_HASHER_COLUMNS$"),
              "NUM_OP_BATCH_FLAGS": F.const(r"^miden_air::trace::decoder::NUM_OP_BATCH_FLAGS$"), "NUM_OP_BITS_EXTRA_COLS": F.const(r"^miden_air::trace::decoder::NUM_OP_BITS_EXTRA_COLS$")}

    def mk_trace():
        items = []
        for fd in fields:
            ty = fd["ty"]
            m = re.match(r"^\[.*Vec<.*>; (\w+)\]$", ty)
            if m:
                n = int(m.group(1)) if m.group(1).isdigit() else consts[m.group(1).rsplit("::", 1)[-1]]
                items.append(Agg([Agg([Poly.var("prev_%s%d" % (fd["name"], i))], "vec") for i in range(n)], "array"))
            else:
                items.append(Agg([Poly.var("prev_%s" % fd["name"])], "vec"))
        return Agg(items, "adt", adt["id"], adt["variants"][0]["name"])

    def word(n):
        return Agg([Poly.var("%s%d" % (n, i)) for i in range(4)], "array")

    # the row-appending interface: append_* methods called from outside DecoderTrace (private helpers that fill a part of a
    # row - append_opcode and the like - are covered through their callers)
    fns = [f for f in F.find(r"^miden_processor::decoder::trace::DecoderTrace::append_\w+$")
           if any(not c.startswith("miden_processor::decoder::trace::DecoderTrace::") for c in F.callers(f.id))]
    ctx.floor("append-methods", len(fns), 7)
    ops = opmodel.opcode_table(F)
    width = None
    for f in fns:
        params = f.d["locals"][2:1 + f.d["argc"]]
        op_params = [i for i, t in enumerate(params) if t.endswith("Operation")]
        variants = sorted(ops) if op_params else [None]
        for var in variants:
            holder = {}

            def make():
                I = Interp(F)
                procmodel.install_field(I)
                return I

            def run(I):
                tr = mk_trace()
                holder["tr"] = tr
                args = [Ptr([tr], 0)]
                for i, t in enumerate(params):
                    if t.endswith("Operation"):
                        vdef = [v for v in opmodel.operation_variants(F) if v["name"] == var][0]
                        args.append(Agg([Poly.var("imm") if fd["ty"].endswith("Felt") else 0 for fd in vdef["fields"]], "adt", opmodel.OPS, var))
                    elif t.endswith("Felt"):
                        args.append(Poly.var("arg%d" % i))
                    elif re.search(r"\[.*Felt; 4\]$", t) or t.endswith("Word"):
                        args.append(word("w%d_" % i))
                    elif re.search(r"&\[.*Felt; (\d+)\]$", t):
                        n = int(re.search(r"; (\d+)\]$", t).group(1))
                        args.append(Ptr([Agg([Poly.var("b%d" % k) for k in range(n)], "array")], 0))
                    else:
                        raise Unanalysable("parameter type %s of %s" % (t, f.name))
                I.call(f.id, args)
                return holder["tr"]

            for I, tr, exc in enumerate_paths(make, run, max_paths=64):
                key = "%s|%s" % (f.name, var)
                ctx.inst(key=key, nontrivial=True)
                if exc is not None:
                    if isinstance(exc, PanicReached):
                        continue
                    ctx.violation("UNANALYSABLE|%s" % f.name, f.loc(), str(exc))
                    break
                lens = []
                for fd, it in zip(fields, tr.items):
                    if it.kind == "array":
                        lens += [("%s[%d]" % (fd["name"], i), len(v.items)) for i, v in enumerate(it.items)]
                    else:
                        lens.append((fd["name"], len(it.items)))
                width = len(lens)
                bad = [(n, l - 1) for n, l in lens if l != 2]
                ctx.oblig(not bad)
                if bad:
                    ctx.violation("row-incomplete|%s|%s" % (f.name, ",".join(n for n, l in bad)), f.loc(),
                                  "%s%s grows columns %s by other than one row (guards %s): the decoder trace columns get unequal lengths"
                                  % (f.name, "(%s)" % var if var else "", bad, [(str(g[0])[:30], g[1]) for g in I.path]))
                if var is not None:
                    oc = ops[var]
                    b = [(oc >> i) & 1 for i in range(7)]
                    fi = {fd["name"]: it for fd, it in zip(fields, tr.items)}
                    got_bits = [v.items[-1].const_value() if isinstance(v.items[-1], Poly) else None for v in fi["op_bits_trace"].items]
                    got_extra = [v.items[-1].const_value() if isinstance(v.items[-1], Poly) else None for v in fi["op_bit_extra_trace"].items]
                    ok = got_bits == b and got_extra == [b[6] * (1 - b[5]) * b[4], b[6] * b[5]]
                    ctx.oblig(ok)
                    if not ok:
                        ctx.violation("op-bits|%s|%s" % (f.name, var), f.loc(), "%s(%s) writes op bits %s / extra columns %s, expected bits of opcode %d and [b6(1-b5)b4, b6*b5]" % (f.name, var, got_bits, got_extra, oc))
    ctx.extra["decoder_columns"] = width
    if width is not None and width < 24:
        ctx.violation("ANCHOR-LOST:decoder-columns", "processor/src/decoder/trace.rs", "only %d decoder columns found" % width)


def r6_trace_len(ctx, F):
    fn = F.fn(r"^miden_processor::trace::finalize_trace$")
    # locate next_power_of_two call and slice its operand
    calls = fn.calls_to(r"next_power_of_two$")
    ctx.inst(key="finalize_trace", nontrivial=True)
    if len(calls) != 1:
        ctx.violation("trace-len-shape", fn.loc(), "finalize_trace must compute the trace length with exactly one next_power_of_two")
        return
    bi, c, t = calls[0]
    a = t["args"][0]
    sl = fn.backward_slice(a["l"]) if "l" in a else {"calls": [], "consts": [], "fields": set()}
    srcs = sorted(set(cal for b, cal, tt in sl["calls"]))
    ctx.sample({"trace_len_sources": srcs})
    need = {"range": r"RangeChecker::get_number_range_checker_rows$", "clk": r"System::clk$", "chiplets": r"Chiplets::trace_len$"}
    for name, pat in need.items():
        ok = any(re.search(pat, s) for s in srcs)
        ctx.oblig(ok)
        if not ok:
            ctx.violation("trace-len-source|%s" % name, fn.loc(t["ln"]), "the trace length does not take %s into account (sources: %s)" % (name, srcs))
    bad = [s for s in srcs if re.search(r"ExecutionOptions|expected_cycles", s)]
    if bad:
        ctx.violation("trace-len-hint", fn.loc(t["ln"]), "the trace length depends on a capacity hint: %s" % bad)
    nrr = F.const(r"^miden_processor::trace::NUM_RAND_ROWS$")
    if not any(k.get("c") == nrr or str(k.get("named", "")).endswith("NUM_RAND_ROWS") for k in sl["consts"]):
        ctx.violation("trace-len-rand-rows", fn.loc(t["ln"]), "NUM_RAND_ROWS is not added before rounding the trace length")


def flat_sum(v):
    """leaves of a tree of additions"""
    if isinstance(v, Term) and v.op in ("+", "+?") and len(v.args) == 2:
        return flat_sum(v.args[0]) + flat_sum(v.args[1])
    return [v]


def r6b_chiplet_rows(ctx, F):
    """Chiplets::trace_len = hasher + bitwise + memory + kernel ROM rows + 1: the bus contribution of main row i is placed in
    auxiliary row i+1 and the last NUM_RAND_ROWS auxiliary rows are overwritten with random values, so the last chiplet row
    must be followed by one padding row before the random rows (doc comment of Chiplets::trace_len; into_trace asserts
    trace_len() + num_rand_rows <= trace length)"""
    fn = F.fn(r"^miden_processor::chiplets::Chiplets::trace_len$")
    adt = F.adt(r"^miden_processor::chiplets::Chiplets$")
    fields = [f["name"] for f in adt["variants"][0]["fields"]]
    I = Interp(F)
    comps = {"hasher": r"hasher::Hasher::trace_len$", "bitwise": r"bitwise::Bitwise::trace_len$", "memory": r"memory::Memory::trace_len$", "kernel_rom": r"kernel_rom::KernelRom::trace_len$"}
    for n, pat in comps.items():
        I.overrides.append((re.compile(pat), (lambda n: lambda I, a, f: Term("rows_" + n))(n)))
    selfv = Agg([Opaque(n) for n in fields], "adt", adt["id"], adt["variants"][0]["name"])
    ctx.inst(key="Chiplets::trace_len", nontrivial=True)
    try:
        r = I.call(fn.id, [Ptr([selfv], 0)])
    except (Unanalysable, PanicReached) as e:
        ctx.violation("UNANALYSABLE|Chiplets::trace_len", fn.loc(), str(e)[:300])
        return
    leaves = sorted(repr(x) for x in flat_sum(r))
    ctx.sample({"Chiplets::trace_len": leaves})
    want = sorted(["rows_" + n for n in comps] + ["1"])
    ok = leaves == want
    ctx.oblig(ok)
    if not ok:
        ctx.violation("chiplet-rows", fn.loc(), "Chiplets::trace_len is the sum of %s; expected the four component lengths plus exactly one padding row (the last chiplet row's bus contribution lands in the following auxiliary row, which must not be a random row)" % leaves)
    # into_trace refuses a trace length that would let random rows overwrite non-padding rows
    it = F.fn(r"^miden_processor::chiplets::Chiplets::into_trace$")
    calls = [c for bi, c, t in it.calls()]
    ok = any(c.endswith("Chiplets::trace_len") for c in calls) and bool(panic_blocks(it))
    ctx.oblig(ok)
    if not ok:
        ctx.violation("chiplet-into-trace-guard", it.loc(), "Chiplets::into_trace must check trace_len() + num_rand_rows <= trace length")
    # component starts are cumulative sums in stacking order
    starts = {"bitwise_start": ["rows_hasher"], "memory_start": ["rows_bitwise", "rows_hasher"], "kernel_rom_start": ["rows_bitwise", "rows_hasher", "rows_memory"], "padding_start": ["rows_bitwise", "rows_hasher", "rows_kernel_rom", "rows_memory"]}
    for name, want in starts.items():
        f2 = F.fn(r"^miden_processor::chiplets::Chiplets::%s$" % name)
        ctx.inst(key="Chiplets::" + name, nontrivial=True)
        try:
            r = I.call(f2.id, [Ptr([selfv], 0)])
        except (Unanalysable, PanicReached) as e:
            ctx.violation("UNANALYSABLE|Chiplets::%s" % name, f2.loc(), str(e)[:300])
            continue
        leaves = sorted(repr(x) for x in flat_sum(r))
        ok = leaves == want
        ctx.oblig(ok)
        if not ok:
            ctx.violation("chiplet-start|%s" % name, f2.loc(), "Chiplets::%s is the sum of %s, expected %s" % (name, leaves, want))


def r8_bitwise_chiplet(ctx, F):
    """Bitwise::u32and / u32xor are interpreted on operands given as 32 binary variables each (bit-decomposed integer domain):
    the eight rows they append are substituted into the bitwise chiplet's transition constraints (row i as current, row i+1
    as next; periodic masks k0, k1 of row i; chiplet selectors of the bitwise section) - every constraint must vanish modulo
    x^2 = x; the value returned is the AND / XOR of the operands, and the last row's output column holds it."""
    from .mirsym import BitInt
    R = opmodel.restricted_air(F)
    cs, ce = R["ranges"]["chiplets"]
    res = R["by_opcode"][0]
    CH = F.const(r"^miden_air::trace::CHIPLETS_OFFSET$")
    BW = F.const(r"^miden_air::trace::chiplets::BITWISE_TRACE_OFFSET$")
    nper = F.const(r"^miden_air::constraints::chiplets::hasher::NUM_PERIODIC_COLUMNS$")
    width = F.const(r"^miden_air::trace::chiplets::bitwise::TRACE_WIDTH$")
    k0 = F.const(r"^miden_air::constraints::chiplets::bitwise::BITWISE_K0_MASK$")
    k1 = F.const(r"^miden_air::constraints::chiplets::bitwise::BITWISE_K1_MASK$")
    RINV = pow(2 ** 64 % P, -1, P)
    mask = lambda k: [(v if isinstance(v, int) else v.get("val", v)) for v in (k["fields"] if isinstance(k, dict) else k)]
    k0, k1 = mask(k0), mask(k1)
    dec = lambda v: v * RINV % P if v > 1 else v
    k0, k1 = [dec(v) for v in k0], [dec(v) for v in k1]
    ctx.inst(key="periodic-masks", nontrivial=True)
    okm = k0 == [1, 0, 0, 0, 0, 0, 0, 0] and k1 == [1, 1, 1, 1, 1, 1, 1, 0]
    ctx.oblig(okm)
    if not okm:
        ctx.violation("bitwise-periodic-masks", "air/src/constraints/chiplets/bitwise/mod.rs", "k0 = %s, k1 = %s; expected a one in the first row of a cycle / a zero in the last" % (k0, k1))
    chip = res[cs:ce]
    adt = F.adt(r"^miden_processor::chiplets::bitwise::Bitwise$")
    n_ok = 0
    for name, opf in (("u32and", lambda x, y: x * y), ("u32xor", lambda x, y: x + y - (x * y).scale(2))):
        fn = F.fn(r"^miden_processor::chiplets::bitwise::Bitwise::%s$" % name)
        ctx.inst(key="Bitwise::" + name, nontrivial=True)
        rows = []
        try:
            for tag in ("", "'"):       # two consecutive operations: the second supplies the next row of the first's last row
                I = Interp(F)
                procmodel.install_field(I)
                regs = {}
                va, vb = Poly.var("A" + tag), Poly.var("B" + tag)
                regs["A" + tag] = BitInt([Poly.var("a%d%s" % (i, tag)) for i in range(32)])
                regs["B" + tag] = BitInt([Poly.var("b%d%s" % (i, tag)) for i in range(32)])

                def as_int(I_, a, f, regs=regs):
                    x = deref(a[0])
                    if isinstance(x, Poly):
                        vs = sorted(x.vars())
                        if len(vs) == 1 and x == Poly.var(vs[0]) and vs[0] in regs:
                            return regs[vs[0]]
                        if x.const_value() is not None:
                            return x.const_value()
                    raise Unanalysable("as_int of %r" % (x,))
                I.overrides.insert(0, (re.compile(r"BaseElement::as_int$"), as_int))
                trace = Agg([Agg([], "vec") for _ in range(width)], "array")
                me = Agg([trace], "adt", adt["id"], adt["variants"][0]["name"])
                out = I.call(fn.id, [Ptr([me], 0), va, vb])
                if not (isinstance(out, Agg) and out.variant == "Ok"):
                    raise Unanalysable("%s returns %r" % (name, out))
                cols = [c.items for c in trace.items]
                if any(len(c) != 8 for c in cols):
                    raise Unanalysable("%s appends %s rows per column" % (name, sorted(set(len(c) for c in cols))))
                rows += [[cols[j][i] for j in range(width)] for i in range(8)]
                if tag == "":
                    ret = out.items[0]
                    want = Poly()
                    for i in range(32):
                        want = want + BitInt.reduce(opf(Poly.var("a%d" % i), Poly.var("b%d" % i))).scale(1 << i)
                    okr = isinstance(ret, Poly) and ret == want
                    ctx.oblig(okr)
                    if not okr:
                        ctx.violation("bitwise-result|%s" % name, fn.loc(), "Bitwise::%s returns %s; the bitwise %s of the operands is %s" % (name, str(ret)[:200], name[3:].upper(), str(want)[:200]))
        except (Unanalysable, PanicReached) as e:
            ctx.violation("UNANALYSABLE|Bitwise::%s" % name, fn.loc(), str(e)[:300])
            continue
        bad = []
        n_eval = 0
        for i in range(8):
            sub = {"c%d" % CH: 1, "c%d" % (CH + 1): 0, "n%d" % CH: 1, "n%d" % (CH + 1): 0,
                   "p%d" % nper: k0[i], "p%d" % (nper + 1): k1[i]}
            for j in range(width):
                sub["c%d" % (BW + j)] = rows[i][j]
                sub["n%d" % (BW + j)] = rows[i + 1][j]
            for ci, poly in enumerate(chip):
                if not isinstance(poly, Poly):
                    continue
                vs = poly.vars()
                if not any(v in sub for v in vs if re.match(r"^[cn]\d+$", v) and BW <= int(v[1:]) < BW + width):
                    continue        # a constraint of another chiplet
                v = BitInt.reduce(poly.subst(sub))
                if not isinstance(v, Poly) or not v.is_zero():
                    left = sorted(x for x in v.vars() if re.match(r"^[cnp]\d+$", x)) if isinstance(v, Poly) else []
                    if left:
                        continue    # depends on cells of other chiplets' columns: not a bitwise constraint
                    bad.append((i, cs + ci, str(v)[:160]))
                n_eval += 1
        ctx.oblig(not bad)
        ctx.sample({"operation": "Bitwise::" + name, "row_constraint_pairs_evaluated": n_eval})
        if n_eval < 8 * 17:
            ctx.violation("ANCHOR-LOST|bitwise-constraints|%s" % name, fn.loc(), "only %d row/constraint pairs of the bitwise chiplet were evaluated (17 constraints x 8 rows expected)" % n_eval)
        if bad:
            i, ci, v = bad[0]
            ctx.violation("bitwise-row-vs-constraint|%s" % name, fn.loc(),
                          "row %d of the eight rows Bitwise::%s appends does not satisfy chiplet constraint #%d (of %d violated row/constraint pairs): residual %s" % (i, name, ci, len(bad), v))
        else:
            n_ok += 1
    ctx.floor("bitwise-operations-verified", n_ok, 2)


def r9_memory_chiplet(ctx, F):
    """Memory::write / Memory::read are interpreted for a scenario of accesses (two contexts, three addresses, repeated
    accesses, reads before and after writes; concrete keys and clock values, symbolic words), Memory::fill_trace then yields
    the chiplet rows; every consecutive pair of rows is substituted into the memory chiplet's transition constraints, which
    must vanish; reads return the last word written (or zeros)."""
    R = opmodel.restricted_air(F)
    cs, ce = R["ranges"]["chiplets"]
    chip = R["by_opcode"][0][cs:ce]
    CH = F.const(r"^miden_air::trace::CHIPLETS_OFFSET$")
    MO = F.const(r"^miden_air::trace::chiplets::MEMORY_TRACE_OFFSET$")
    width = F.const(r"^miden_air::trace::chiplets::memory::TRACE_WIDTH$")
    mem_adt = F.adt(r"^miden_processor::chiplets::memory::Memory$")
    f_default = [k for k in F.fns if k.endswith("chiplets::memory::Memory@Default::default")]
    f_read, f_write = F.fn(r"^miden_processor::chiplets::memory::Memory::read$"), F.fn(r"^miden_processor::chiplets::memory::Memory::write$")
    f_fill = F.fn(r"^miden_processor::chiplets::memory::Memory::fill_trace$")
    ctx_adt = F.adt(r"^miden_processor::system::ContextId$|^miden_processor::ContextId$")
    ctx.inst(key="memory-scenario", nontrivial=True)
    I = Interp(F)
    procmodel.install_field(I)
    rows = {}
    holder = {"n": 0}
    ov = lambda rx, m: I.overrides.insert(0, (re.compile(rx), m))
    ov(r"TraceFragment::set$", lambda I_, a, f: (rows.setdefault(a[1], {}).__setitem__(a[2], a[3]), Agg([], "tuple"))[1])
    ov(r"TraceFragment::len$", lambda I_, a, f: holder["n"])
    ov(r"TraceFragment::width$", lambda I_, a, f: width)
    mk_ctx = lambda v: Agg([v], "adt", ctx_adt["id"], ctx_adt["variants"][0]["name"])
    word = lambda n: Agg([Poly.var("%s_%d" % (n, i)) for i in range(4)], "array")
    # (kind, ctx, addr, clk, word)
    scenario = [("w", 0, 4, 3, "W1"), ("r", 0, 4, 10, None), ("r", 0, 4, 11, None), ("r", 0, 7, 12, None), ("w", 0, 7, 70000, "W2"), ("w", 0, 7, 70001, "W3"),
                ("r", 0, 7, 2 ** 31 + 5, None), ("w", 3, 4, 20, "W4"), ("r", 3, 4, 21, None), ("r", 3, 900, 22, None), ("w", 0, 4, 2 ** 31 + 9, "W5")]
    try:
        mem = I.call(f_default[0], []) if len(f_default) == 1 else None
        if mem is None:
            raise Unanalysable("Memory::default not found")
        me = Ptr([mem], 0)
        model = {}
        for kind, c_, a_, k_, w_ in scenario:
            holder["n"] += 1
            if kind == "w":
                wv = word(w_)
                I.call(f_write.id, [me, mk_ctx(c_), a_, k_, wv])
                model[(c_, a_)] = [repr(x) for x in wv.items]
            else:
                got = I.call(f_read.id, [me, mk_ctx(c_), a_, k_])
                want = model.get((c_, a_), ["0"] * 4)
                okr = [repr(x) for x in deref(got).items] == want
                ctx.oblig(okr)
                if not okr:
                    ctx.violation("memory-read-value", f_read.loc(), "Memory::read(ctx %d, addr %d) at clk %d returns %s; the last word written there is %s" % (c_, a_, k_, [repr(x) for x in deref(got).items], want))
        # the range-check requests of the memory chiplet (sibling of fill_trace: must use the same deltas)
        rc = []
        ov(r"RangeChecker::add_range_checks$", lambda I_, a, f: (rc.append((a[1], [deref(x) for x in (a[2].values() if isinstance(a[2], SlicePtr) else I_.as_slice(a[2]).values())])), Agg([], "tuple"))[1])
        f_rc = F.fn(r"^miden_processor::chiplets::memory::Memory::append_range_checks$")
        I.call(f_rc.id, [me, 1000, Ptr([Opaque("RangeChecker")], 0)])
        I.call(f_fill.id, [mem, Ptr([Opaque("TraceFragment")], 0)])
    except PanicReached as e:
        # the scenario is an honest access sequence: a panic while its trace is built (e.g. the debug assertion of
        # split_u32_into_u16 on a delta that is not a 32-bit value) means the deltas are taken from the wrong columns
        ctx.violation("memory-trace-panic", f_fill.loc(), "building the memory trace of an honest access sequence (two contexts, several addresses and clock gaps) reaches a panic: %s - "
                      "a context / address / clock delta is not the documented non-negative 32-bit difference" % str(e)[:200])
    except Unanalysable as e:
        ctx.violation("UNANALYSABLE|memory-chiplet", f_fill.loc(), str(e)[:300])
        return
    n = holder["n"]
    ok_rows = sorted(rows) == list(range(n)) and all(sorted(rows[i]) == list(range(width)) for i in rows)
    ctx.oblig(ok_rows)
    if not ok_rows:
        ctx.violation("memory-rows-incomplete", f_fill.loc(), "fill_trace wrote rows %s with columns %s; expected %d rows of %d columns" % (sorted(rows), sorted(set(len(r) for r in rows.values())), n, width))
        return
    D0 = F.const(r"^miden_air::trace::chiplets::memory::D0_COL_IDX$")
    D1 = F.const(r"^miden_air::trace::chiplets::memory::D1_COL_IDX$")
    cval = lambda x: x.const_value() if isinstance(x, Poly) else x
    got_rc = [(r_, [cval(v) for v in vals]) for r_, vals in rc]
    want_rc = [(1000 + i, [cval(rows[i][D0]), cval(rows[i][D1])]) for i in range(n)]
    okrc = got_rc == want_rc
    ctx.oblig(okrc)
    if not okrc:
        diff = next((g, w) for g, w in zip(got_rc + [None] * n, want_rc) if g != w)
        ctx.violation("memory-range-requests", f_rc.loc(), "Memory::append_range_checks requests %s; the delta limbs fill_trace writes for that row are %s: the range checker's multiplicities and the memory chiplet's lookups disagree" % diff)
    # rows are sorted by (ctx, addr, clk)
    order = sorted(range(len(scenario)), key=lambda i: (scenario[i][1], scenario[i][2], scenario[i][3]))
    bad, n_eval = [], 0
    for i in range(n - 1):
        sub = {"c%d" % CH: 1, "c%d" % (CH + 1): 1, "c%d" % (CH + 2): 0, "n%d" % CH: 1, "n%d" % (CH + 1): 1, "n%d" % (CH + 2): 0}
        for j in range(width):
            sub["c%d" % (MO + j)] = rows[i][j]
            sub["n%d" % (MO + j)] = rows[i + 1][j]
        for ci, poly in enumerate(chip):
            if not isinstance(poly, Poly):
                continue
            if not any(re.match(r"^[cn]\d+$", v) and MO <= int(v[1:]) < MO + width for v in poly.vars()):
                continue
            v = poly.subst(sub)
            left = sorted(x for x in v.vars() if re.match(r"^[cnp]\d+$", x)) if isinstance(v, Poly) else ["?"]
            if left:
                continue
            n_eval += 1
            if not v.is_zero():
                bad.append((i, cs + ci, str(v)[:160]))
    ctx.oblig(not bad)
    ctx.sample({"accesses": len(scenario), "rows": n, "row_pair_constraint_evaluations": n_eval,
                "row_order": ["%s ctx%d addr%d clk%d" % scenario[i][:4] for i in order]})
    if n_eval < (n - 1) * 10:
        ctx.violation("ANCHOR-LOST|memory-constraints", f_fill.loc(), "only %d row-pair/constraint evaluations (at least %d expected)" % (n_eval, (n - 1) * 10))
    if bad:
        i, ci, v = bad[0]
        a, b = scenario[order[i]], scenario[order[i + 1]]
        ctx.violation("memory-row-vs-constraint", f_fill.loc(),
                      "the rows Memory::fill_trace writes for the accesses %s and %s do not satisfy chiplet constraint #%d (%d violated evaluations): residual %s" % (a[:4], b[:4], ci, len(bad), v))


def r10_hasher_chiplet(ctx, F):
    """the hasher's trace-producing methods (permute, hash_control_block, hash_span_block for 1..4 batches, build_merkle_root and
    update_merkle_root for paths of depth 1..3) are interpreted on symbolic inputs, the round function replaced by fresh state
    symbols; every consecutive pair of the rows they append is substituted, with the periodic masks of its position, into the
    hasher chiplet's selector, node-index and state-copy constraints (the RPO round constraints, which mention the round
    constants, are outside this rule): all must vanish"""
    R = opmodel.restricted_air(F)
    cs, ce = R["ranges"]["chiplets"]
    n_sel = F.const(r"^miden_air::constraints::chiplets::NUM_CONSTRAINTS$")
    n_h = F.const(r"^miden_air::constraints::chiplets::hasher::NUM_CONSTRAINTS$")
    group = R["by_opcode"][0][cs + n_sel:cs + n_sel + n_h]
    CH = F.const(r"^miden_air::trace::CHIPLETS_OFFSET$")
    rng = lambda name: F.const(r"^miden_air::trace::chiplets::%s$" % name)
    S0 = rng("HASHER_SELECTOR_COL_RANGE")["fields"][0]
    H0 = rng("HASHER_STATE_COL_RANGE")["fields"][0]
    IDX = rng("HASHER_NODE_INDEX_COL_IDX")
    RINV = pow(2 ** 64 % P, -1, P)

    def mask(name):
        k = F.const(name)
        vals = [(v if isinstance(v, int) else v.get("val", v)) for v in (k["fields"] if isinstance(k, dict) else k)]
        return [v * RINV % P if v > 1 else v for v in vals]
    K = [mask(r"^miden_air::constraints::chiplets::hasher::HASH_K%d_MASK$" % i) for i in range(3)]
    hadt = F.adt(r"^miden_processor::chiplets::hasher::Hasher$")
    tadt = F.adt(r"^miden_processor::chiplets::hasher::trace::HasherTrace$")
    badt = F.adt(r"^miden_core::program::blocks::span_block::OpBatch$")
    word = lambda n: Agg([Poly.var("%s%d" % (n, i)) for i in range(4)], "array")
    digest = lambda n: Agg([word(n)], "adt", "miden_crypto::hash::rpo::RpoDigest", "RpoDigest")

    def scenario(name, call):
        ctx.inst(key="hasher|" + name, nontrivial=True)
        I = Interp(F)
        procmodel.install_field(I)
        cnt = [0]
        ov = lambda rx, m: I.overrides.insert(0, (re.compile(rx), m))

        def apply_round(I_, a, f):
            st = deref(a[0])
            cnt[0] += 1
            st.items[:] = [Poly.var("r%d_%d" % (cnt[0], j)) for j in range(len(st.items))]
            return Agg([], "tuple")
        ov(r"hasher::apply_round$|Rpo256::apply_round$", apply_round)
        ov(r"Hasher::get_memoized_trace$", lambda I_, a, f: Agg([], "adt", "core::option::Option", "None"))
        ov(r"Hasher::insert_to_memoized_trace_map$", lambda I_, a, f: Agg([], "tuple"))
        ov(r"MerklePath@(core::ops::)?(deref::)?Deref::deref$", lambda I_, a, f: Ptr([deref(a[0])], 0))
        ov(r"OpBatch::groups$", lambda I_, a, f: Ptr(deref(a[0]).items, 1))
        ov(r"RpoDigest@(core::ops::)?(deref::)?Deref::deref$", lambda I_, a, f: Ptr(deref(a[0]).items, 0))
        # &[Felt][a..b].try_into::<[Felt; N]>() -> Ok(array)
        ov(r"TryInto::try_into$", lambda I_, a, f: Agg([Agg(list((a[0] if isinstance(a[0], SlicePtr) else I_.as_slice(a[0])).values()), "array")], "adt", "core::result::Result", "Ok"))
        trace = Agg([Agg([Agg([], "vec") for _ in range(3)], "array"), Agg([Agg([], "vec") for _ in range(12)], "array"), Agg([], "vec")], "adt", tadt["id"], tadt["variants"][0]["name"])
        me = Agg([trace, Agg([], "btreemap")], "adt", hadt["id"], hadt["variants"][0]["name"])
        fn_of = lambda n: F.fn(r"^miden_processor::chiplets::hasher::Hasher::%s$" % n)
        try:
            call(I, Ptr([me], 0), fn_of)
        except (Unanalysable, PanicReached) as e:
            ctx.violation("UNANALYSABLE|hasher|%s" % name, "processor/src/chiplets/hasher/mod.rs", str(e)[:300])
            return
        sel, st, idx = [c.items for c in trace.items[0].items], [c.items for c in trace.items[1].items], trace.items[2].items
        n = len(idx)
        if n == 0 or n % 8 or any(len(c) != n for c in sel + st):
            ctx.violation("hasher-rows|%s" % name, "processor/src/chiplets/hasher/trace.rs", "%s appends %s rows per column (a multiple of 8 expected in every column)" % (name, sorted(set(len(c) for c in sel + st + [idx]))))
            return
        row = lambda i: {S0 + j: sel[j][i] for j in range(3)} | {H0 + j: st[j][i] for j in range(12)} | {IDX: idx[i]}
        bad, n_eval = [], 0
        for i in range(n - 1):
            cur, nxt = row(i), row(i + 1)
            sub = {"c%d" % CH: 0, "n%d" % CH: 0, "p0": K[0][i % 8], "p1": K[1][i % 8], "p2": K[2][i % 8]}
            for c_, v in cur.items():
                sub["c%d" % c_] = v
            for c_, v in nxt.items():
                sub["n%d" % c_] = v
            for ci, poly in enumerate(group):
                if not isinstance(poly, Poly):
                    continue
                if any(re.match(r"^p\d+$", v) and int(v[1:]) >= 3 for v in poly.vars()):
                    continue        # RPO round constraints (mention the round constants)
                v = poly.subst(sub)
                if any(re.match(r"^[cnp]\d+$", x) for x in v.vars()):
                    continue
                n_eval += 1
                if not v.is_zero():
                    bad.append((i, cs + n_sel + ci, str(v)[:120]))
        ctx.oblig(not bad)
        ctx.sample({"scenario": name, "rows": n, "row_pair_constraint_evaluations": n_eval})
        if n_eval < (n - 1) * 10:
            ctx.violation("ANCHOR-LOST|hasher-constraints|%s" % name, "air/src/constraints/chiplets/hasher/mod.rs", "only %d evaluations for %d rows" % (n_eval, n))
        if bad:
            i, ci, v = bad[0]
            ctx.violation("hasher-row-vs-constraint|%s" % name, "processor/src/chiplets/hasher/mod.rs",
                          "%s: rows %d -> %d of the trace it appends (position %d of the 8-row cycle, selectors %s -> %s) do not satisfy chiplet constraint #%d (%d violated evaluations): residual %s"
                          % (name, i, i + 1, i % 8, [repr(sel[j][i]) for j in range(3)], [repr(sel[j][i + 1]) for j in range(3)], ci, len(bad), v))
        return n

    scenario("permute", lambda I, me, fn: I.call(fn("permute").id, [me, Agg([Poly.var("x%d" % i) for i in range(12)], "array")]))
    scenario("hash_control_block", lambda I, me, fn: I.call(fn("hash_control_block").id, [me, word("h1_"), word("h2_"), Poly.var("domain"), digest("exp")]))
    for nb in ((1, 2, 3, 4) if ctx.tier != "thorough" else (1, 2, 3, 4, 5, 6, 8)):
        def span(I, me, fn, nb=nb):
            batches = [Agg([Agg([], "vec"), Agg([Poly.var("g%d_%d" % (b, i)) for i in range(8)], "array"), Agg([0] * 8, "array"), 8], "adt", badt["id"], badt["variants"][0]["name"]) for b in range(nb)]
            return I.call(fn("hash_span_block").id, [me, SlicePtr(batches, 0, nb), digest("exp")])
        scenario("hash_span_block|%d-batches" % nb, span)
    for depth, index in (((1, 1), (2, 2), (3, 5)) if ctx.tier != "thorough" else ((1, 0), (1, 1), (2, 0), (2, 1), (2, 2), (2, 3), (3, 5), (4, 9), (5, 22), (6, 33))):
        path = lambda: Agg([digest("sib%d_" % k) for k in range(depth)], "vec")
        scenario("build_merkle_root|depth-%d" % depth, lambda I, me, fn, depth=depth, index=index: I.call(fn("build_merkle_root").id, [me, word("leaf"), Ptr([Agg([digest("sib%d_" % k) for k in range(depth)], "vec")], 0), Poly.const(index)]))
        scenario("update_merkle_root|depth-%d" % depth, lambda I, me, fn, depth=depth, index=index: I.call(fn("update_merkle_root").id, [me, word("old"), word("new"), Ptr([Agg([digest("sib%d_" % k) for k in range(depth)], "vec")], 0), Poly.const(index)]))


def run(ctx, F):
    ctx.trusted += ["rustc MIR via mirfacts", "mirsym abstract interpreter and the abstract Process model (vlib/procmodel.py)", "docs/src/design as oracle"]
    ctx.assumptions += ["handler values the model treats as fresh (u32 limbs, memory, advice, hasher results) are not substituted: those constraints are counted as undecided",
                        "auxiliary columns, chiplet fragments and range-table contents are not decided"]
    M = models(F)
    ctx.run_rule("C03-R1", "every successful path of every operation handler writes all 16 next-row stack cells, calls exactly one copy/shift primitive and advances the clock once (non-trivial = path with data-dependent guards)", r1_coverage, F, M)
    ctx.run_rule("C03-R2", "handler stack effect agrees with the documented effect per cell, with the opcode prefix class, and control operations execute the documented Noop/Drop", r2_shift_class, F, M)
    ctx.run_rule("C03-R3", "substituting each handler path's next row / helper values into every stack transition constraint restricted to that operation gives the zero polynomial", r3_substitution, F, M)
    ctx.run_rule("C03-R4", "helper registers read by an operation's constraints are written by its handler; exactly prefix-100 operations request range checks", r4_helpers, F, M)
    ctx.run_rule("C03-R5", "decoder trace append methods push once per column on every path", r5_decoder_rows, F)
    from . import rules_c12
    ctx.run_rule("C03-R8", "bitwise chiplet: the eight rows Bitwise::u32and / u32xor append for bit-symbolic operands satisfy every bitwise transition constraint (with the periodic masks of their row), and the returned value is the AND / XOR of the operands", r8_bitwise_chiplet, F)
    ctx.run_rule("C03-R9", "memory chiplet: for a scenario of reads and writes (two contexts, repeated and first accesses, small and large clock gaps) the rows Memory::fill_trace writes satisfy every memory transition constraint pairwise, and reads return the last word written or zeros", r9_memory_chiplet, F)
    ctx.run_rule("C03-R10", "hasher chiplet: the rows appended by permute / hash_control_block / hash_span_block (1..4 batches) / build_merkle_root and update_merkle_root (depth 1..3) satisfy the chiplet's selector, node-index and state-copy constraints pairwise (round function abstracted)", r10_hasher_chiplet, F)
    ctx.run_rule("C03-R7", "RangeChecker::add_range_checks counts every value once and records all values of a row, also when the row already has lookups (the b_range column of an honest trace must return to 1)", rules_c12.r5_range_conservation, F)
    ctx.run_rule("C03-R6b", "chiplet rows = hasher + bitwise + memory + kernel ROM + one padding row; component starts are the cumulative sums", r6b_chiplet_rows, F)
    ctx.run_rule("C03-R6", "trace length = next_power_of_two(max(range rows, clk, chiplet rows) + NUM_RAND_ROWS), independent of capacity hints", r6_trace_len, F)

"""C12 — lookups between trace components balance. Static parts decided here:
R1  requester completeness: every operation whose handler / decoder step makes a chiplet produce rows has a non-trivial
    request in BusColumnBuilder::get_requests_at, and no other operation has one
R2  arity: the number of request factors of an operation equals the number of bus-visible rows its handler creates
R3  request = product of responses, symbolically: for memory and bitwise operations the request multiplicand, with trace
    cells replaced by the values the handler writes there, equals the product of the response multiplicands of the rows the
    handler makes the chiplet record (rows obtained by interpreting Chiplets::read_mem/... and the chiplets' own recorders)
R4a virtual-table row formulas (block stack, block hash, op group, stack overflow) equal the documented ones for every
    operation, every other operation contributes 1; CALL/SYSCALL tuples: insertion and removal agree position by position
R4b who inserts: every operation that pushes the block stack inserts a row, END/RESPAN remove one; every operation whose
    executor runs child blocks inserts the children into the block hash table
R4c MainTrace::is_left_shift / is_right_shift agree with the handlers' shift class for every operation"""
import re
from .mirutil import *
from .mirsym import *
from .mirsym import R_INV, P
from .facts import strip_targs
from . import auxmodel, opmodel, procmodel, decdocs, docspec
from .docspec import LatexError, LatexParser, tokenize

LEVEL = "other"
CONTROL = ["Join", "Split", "Loop", "Call", "SysCall", "Dyn", "Span", "Repeat", "Respan", "End", "Halt"]
# columns that are binary where a builder branches on `== ONE` (reason per entry); used to turn a failed guard into `== 0`
BINARY = {"s0": "under SPLIT/LOOP the condition is checked binary by the executor (C06) and by the decoder's general constraint",
          "h6": "is_call flag written by the decoder at END rows", "h7": "is_syscall flag written by the decoder at END rows"}
# documented formulas that the code deliberately differs from, each with the reason the code's form is the consistent one
DOC_DISCREPANCY = {
    ("block-hash", "End", "a"): "docs write bh with the current-row block address a; the row was inserted with the parent id (a' at the start row of the parent), "
                                 "and at the child's END row the parent id is a' (block stack section of the same document): a is replaced by a'",
    ("block-hash", "Call", "row"): "docs do not list CALL/SYSCALL among the operations that update the block hash table, but the END of the callee's root removes the row (call block id, callee hash, "
                                    "is_first_child = 0 because the call block's own END follows, is_loop_body = 0): the inserted row must be ch_1 = alpha0 + alpha1*a' + sum alpha_{i+2}*h_i "
                                    "(h0..h3 of the CALL/SYSCALL row hold the callee hash)",
    ("block-hash", "End", "Halt"): "docs list END and REPEAT as followers that clear the is_first_child term; the boundary paragraph of the same section fixes the program row as (0, hash, 0, 0), "
                                    "so a following HALT must clear it as well",
}
# hasher lookups per operation (docs/src/design/chiplets/hasher.md: one lookup for the input row and one for the output row of each computation)
HASHER_LOOKUPS = {"HPerm": 2, "MpVerify": 2, "MrUpdate": 4, "Join": 1, "Split": 1, "Loop": 1, "Dyn": 1, "Call": 1, "SysCall": 2, "Span": 1, "Respan": 1, "End": 1}
# operations that consume hasher rows created earlier by the block's start operation (hash_control_block / hash_span_block hash everything up front)
LATE_CONSUMERS = {"End": "reads the RETURN_HASH row of the hash started by the block's start operation",
                  "Respan": "consumes the absorption row of the next batch, hashed up front by hash_span_block at SPAN"}
MEM_ROWS = {"mem_read": 1, "mem_read2": 2, "mem_write": 1, "mem_write_elem": 1, "mem_write2": 2}


def builder_fn(F, b, m):
    c = [k for k in F.fns if re.search(r"%s@AuxColumnBuilder::%s$" % (b, m), strip_targs(k))]
    if len(c) != 1:
        raise AnchorLost("aux builder %s::%s: %d matches" % (b, m, len(c)))
    return c[0]


class AnchorLost(Exception):
    pass


def truth(val):
    """truth value of a recorded branch decision on a boolean: 0 = false, ('not', [0]) = true"""
    if isinstance(val, tuple):
        return True if (val[0] == "not" and 0 in val[1]) else None
    return bool(val)


def guard_subst(guards):
    """substitution implied by guards of the form eq(cell, 1): true -> cell = 1, false -> cell = 0 for BINARY cells; returns
    (subst dict, residual guards as text)"""
    sub, rest = {}, []
    for cond, val, loc in guards:
        if isinstance(cond, Term) and cond.op == "eq" and len(cond.args) == 2 and isinstance(cond.args[0], Poly) and isinstance(cond.args[1], Poly):
            a, b = cond.args
            vs = sorted(a.vars())
            if len(vs) == 1 and a == Poly.var(vs[0]) and b.const_value() == 1 and vs[0] in BINARY:
                sub[vs[0]] = 1 if truth(val) else 0
                continue
        rest.append("%s=%s" % (cond, val))
    return sub, rest


def subst(p, sub):
    if not isinstance(p, Poly) or not sub:
        return p
    return p.subst({k: Poly.const(v) for k, v in sub.items()}) if hasattr(p, "subst") else p


def one():
    return Poly.const(1)


def is_one(v):
    return isinstance(v, Poly) and v.const_value() == 1


def snake(n):
    return re.sub(r"(?<!^)(?=[A-Z])", "_", n).lower()


# -------------------------------------------------------------------------------------------------------------------

def table_eval(A, F, builder, side, opcode, **kw):
    fid = builder_fn(F, builder, "get_requests_at" if side == "u" else "get_responses_at")
    return A.eval(fid, opcode, **kw), F.fns[fid]


def r4a_decoder_tables(ctx, F):
    A = auxmodel.AuxModel(F)
    T = opmodel.opcode_table(F)
    ctx.floor("opcodes", len(T), 89)
    n_nontrivial = 0
    # ---------- block stack table
    D = decdocs.Formulas("block-stack")
    docops = {"v": {"Join": "vXjoin", "Split": "vXsplit", "Loop": "vXloop", "Span": "vXspan", "Respan": "vXrespan", "Dyn": "vXdyn"}, "u": {"Respan": "uXrespan", "End": "uXend"}}
    undocumented = {"v": {"Call", "SysCall"}, "u": set()}    # CALL/SYSCALL rows are not described by the docs: decided by the sibling rule below
    call_rows = {}
    for side in ("v", "u"):
        for op, oc in sorted(T.items(), key=lambda kv: kv[1]):
            res, fn = table_eval(A, F, "BlockStackColumnBuilder", side, oc)
            key = "block-stack|%s|%s" % (side, op)
            ctx.inst(key=key, nontrivial=op in docops[side] or op in undocumented[side])
            for guards, val in res:
                if isinstance(val, Exception):
                    ctx.violation("UNANALYSABLE|%s" % key, fn.loc(), str(val)[:300])
                    continue
                sub, rest = guard_subst(guards)
                callpath = sub.get("h6") == 1 or sub.get("h7") == 1
                if op in undocumented[side] or (side == "u" and op == "End" and callpath):
                    call_rows.setdefault((side, op), []).append((sub, val))
                    continue
                if side == "u" and op == "Respan" and callpath:
                    # a RESPAN row holds operation groups in h6/h7, not flags: the documented row has no call part
                    want = D.eval(docops[side][op], {"fX" + op.lower(): 1})
                elif op in docops[side]:
                    want = D.eval(docops[side][op], {"fX" + op.lower(): 1})
                else:
                    want = one()
                ok = isinstance(val, Poly) and val == want
                ctx.oblig(ok)
                if not ok:
                    ctx.violation("table-row|%s%s" % (key, "|call-flag" if callpath else ""), fn.loc(),
                                  "block stack table, %s side, %s%s: the builder gives %s but the documented row (decoder/constraints.md:%d) is %s"
                                  % ("removal" if side == "u" else "insertion", op, " (path %s)" % rest if rest else "", val, D.line, want))
    # which function hash the system columns hold during the callee's body: from System::start_call / start_syscall
    body_hash = {}
    sysadt = F.adt(r"^miden_processor::system::System$")
    sf = [f["name"] for f in sysadt["variants"][0]["fields"]]
    for op_, fnpat, args_ in (("Call", r"^miden_processor::system::System::start_call$", [Agg([Poly.var("K%d" % i) for i in range(4)], "array")]),
                              ("SysCall", r"^miden_processor::system::System::start_syscall$", [])):
        sv = Agg([Agg([Poly.var("P%d" % i) for i in range(4)], "array") if n_ == "fn_hash" else (False if n_ == "in_syscall" else Term(n_)) for n_ in sf], "adt", sysadt["id"], sysadt["variants"][0]["name"])
        try:
            I_ = Interp(F)
            procmodel.install_field(I_)
            I_.call(F.fn(fnpat).id, [Ptr([sv], 0)] + args_)
            fh = dict(zip(sf, sv.items))["fn_hash"]
            names_ = [repr(x) for x in deref(fh).items]
            body_hash[op_] = "callee" if names_ == ["K0", "K1", "K2", "K3"] else "parent" if names_ == ["P0", "P1", "P2", "P3"] else "?"
        except (Unanalysable, PanicReached) as e:
            body_hash[op_] = "?"
            ctx.violation("UNANALYSABLE|start-context|%s" % op_, "processor/src/system/mod.rs", str(e)[:200])
    ctx.sample({"fn_hash_during_callee_body": body_hash})
    # sibling rule for CALL / SYSCALL: the row inserted at the start equals, position by position, the row removed at END
    for op in ("Call", "SysCall"):
        ins = call_rows.get(("v", op), [])
        rem = [v for s, v in call_rows.get(("u", "End"), []) if (s.get("h6") == 1 if op == "Call" else (s.get("h7") == 1 and s.get("h6") == 0))]
        ctx.inst(key="block-stack|call-sibling|%s" % op, nontrivial=True)
        if len(ins) != 1 or not rem:
            ctx.violation("call-row-missing|%s" % op, "processor/src/decoder/aux_trace/block_stack_table.rs", "no %s row for %s in the block stack table" % ("insertion" if len(ins) != 1 else "removal", op))
            continue
        pi, pr = ins[0][1], rem[0]
        for k in range(12):
            ci, cr = pi.coeff_of("alpha%d" % k) if hasattr(pi, "coeff_of") else None, pr.coeff_of("alpha%d" % k) if hasattr(pr, "coeff_of") else None
            si, sr = str(ci), str(cr)
            base = lambda s: re.sub(r"'+$", "", s)
            if k in (1, 2):
                # (block id, parent id): inserted as (a', a) at the start row, removed as (a, a') at the END row
                ok = {si, sr} == {"a", "a'"}
            elif k == 3:
                ok = True       # is_loop: 0 for call blocks on the insertion side, the h5 flag on the removal side (written 0 by end_call)
            elif 4 <= k <= 7:
                ok = base(si) == base(sr) and sr == si + "'"
            elif k >= 8:
                # positions 8..11 hold a function hash. Denote by P the hash of the function executing before the CALL / SYSCALL row
                # (fn_hash columns at the start row = at the row after END, where it is restored) and by K the callee's hash
                # (h0..h3 of the start row). During the callee's body the fn_hash columns hold K for CALL and stay P for SYSCALL
                # (derived from System::start_call / start_syscall below). Both sides must denote the same hash element.
                def denote(sym, side):
                    m_ = re.match(r"^(h|fnh)(\d)('?)$", sym)
                    if not m_:
                        return None
                    col, j, pr = m_.group(1), int(m_.group(2)), m_.group(3)
                    if side == "ins":
                        return ("K", j) if col == "h" and not pr else ("P", j) if col == "fnh" and not pr else None
                    if col == "fnh" and pr:
                        return ("P", j)
                    if col == "fnh":
                        return ("K", j) if body_hash[op] == "callee" else ("P", j)
                    return None
                di, dr = denote(si, "ins"), denote(sr, "rem")
                ok = di is not None and di == dr and di[1] == k - 8
            else:
                ok = si == sr
            ctx.oblig(ok)
            if not ok:
                ctx.violation("call-tuple|%s|alpha%d" % (op, k), "processor/src/decoder/aux_trace/block_stack_table.rs",
                              "block stack table row of %s: position %d holds %s on insertion (start row) but %s on removal (END row)%s" % (op, k, si, sr,
                              ("; during the body of a %s the fn_hash columns hold the %s's hash, so the two sides denote different values and the table cannot balance" % (op.upper(), body_hash.get(op))) if k >= 8 else ""))
    # ---------- block hash table
    D = decdocs.Formulas("block-hash")
    docv = {"Join": "vXjoin", "Split": "vXsplit", "Loop": "vXloop", "Repeat": "vXrepeat", "Dyn": "vXdyn"}
    for op, oc in sorted(T.items(), key=lambda kv: kv[1]):
        res, fn = table_eval(A, F, "BlockHashTableColumnBuilder", "v", oc)
        key = "block-hash|v|%s" % op
        ctx.inst(key=key, nontrivial=op in docv or op in ("Call", "SysCall"))
        for guards, val in res:
            if isinstance(val, Exception):
                ctx.violation("UNANALYSABLE|%s" % key, fn.loc(), str(val)[:300])
                continue
            sub, rest = guard_subst(guards)
            want = subst(D.eval(docv[op], {"fX" + op.lower(): 1}), sub) if op in docv else one()
            if op in ("Call", "SysCall"):
                want = D.eval("chXa", {})       # DOC_DISCREPANCY (block-hash, Call, row)
            if op == "Loop" and sub.get("s0") == 0:
                want = one()        # v_loop evaluates to 0 in the docs' sum form, i.e. the factor is 1: nothing is added
            ok = isinstance(val, Poly) and subst(val, sub) == want
            ctx.oblig(ok)
            if not ok:
                ctx.violation("table-row|%s" % key, fn.loc(), "block hash table, insertion side, %s%s: the builder gives %s but the documented row (decoder/constraints.md:%d) is %s"
                              % (op, " with %s" % sub if sub else "", val, D.line, want))
    for op, oc in sorted(T.items(), key=lambda kv: kv[1]):
        nexts = ["End", "Repeat", "Halt", "Join", "Span"] if op == "End" else [None]
        for nx in nexts:
            res, fn = table_eval(A, F, "BlockHashTableColumnBuilder", "u", oc, next_opcode=T[nx] if nx else None)
            key = "block-hash|u|%s%s" % (op, ("|next=" + nx) if nx else "")
            ctx.inst(key=key, nontrivial=op == "End")
            for guards, val in res:
                if isinstance(val, Exception):
                    ctx.violation("UNANALYSABLE|%s" % key, fn.loc(), str(val)[:300])
                    continue
                if op == "End":
                    flags = {"fXend": 1, "fXend'": 1 if nx == "End" else 0, "fXrepeat'": 1 if nx == "Repeat" else 0}
                    if nx == "Halt":
                        flags["fXend'"] = 1      # DOC_DISCREPANCY (block-hash, End, Halt)
                    want = D.eval("uXend", flags).subst({"a": Poly.var("a'")})      # DOC_DISCREPANCY (block-hash, End, a)
                else:
                    want = one()
                ok = isinstance(val, Poly) and val == want
                ctx.oblig(ok)
                if not ok:
                    ctx.violation("table-row|%s" % key, fn.loc(), "block hash table, removal side, %s: the builder gives %s but the documented row is %s" % (key, val, want))
    # ---------- op group table
    D = decdocs.Formulas("op-group")
    C = lambda pat: (lambda c: c["val"] if isinstance(c, dict) and "val" in c else c)(F.const(pat))
    flagsets = {8: C(r"decoder::OP_BATCH_8_GROUPS$"), 4: C(r"decoder::OP_BATCH_4_GROUPS$"), 2: C(r"decoder::OP_BATCH_2_GROUPS$"), 1: C(r"decoder::OP_BATCH_1_GROUPS$")}
    bf = [c for c, n in A.names.items() if n in ("bc0", "bc1", "bc2")]
    bf.sort(key=lambda c: A.names[c])
    for op, oc in sorted(T.items(), key=lambda kv: kv[1]):
        for ng, fl in (sorted(flagsets.items()) if op in ("Span", "Respan") else [(None, None)]):
            extra = {}
            if fl is not None:
                vals = fl["fields"] if isinstance(fl, dict) else fl
                vals = [v if isinstance(v, int) else (v.get("val") if isinstance(v, dict) else v) for v in vals]
                extra = {(c, 0): felt_const(v) for c, v in zip(bf, vals)}
            res, fn = table_eval(A, F, "OpGroupTableColumnBuilder", "v", oc, extra_fixed=extra)
            key = "op-group|v|%s%s" % (op, "|groups=%d" % ng if ng else "")
            ctx.inst(key=key, nontrivial=ng is not None)
            for guards, val in res:
                if isinstance(val, Exception):
                    ctx.violation("UNANALYSABLE|%s" % key, fn.loc(), str(val)[:300])
                    continue
                want = one()
                if ng and ng > 1:
                    for i in range(1, ng):
                        want = want * D.eval("v_i", {}, index=i)
                ok = is_field(val) and isinstance(val, Poly) and val == want
                ctx.oblig(ok)
                if not ok:
                    ctx.violation("table-row|%s" % key, fn.loc(), "op group table, insertion side, %s: the builder gives %s but the documented product of v_1..v_%d is %s" % (key, str(val)[:200], (ng or 1) - 1, str(want)[:200]))
        # removal: the same for every opcode except PUSH
        res, fn = table_eval(A, F, "OpGroupTableColumnBuilder", "u", oc)
        key = "op-group|u|%s" % op
        ctx.inst(key=key, nontrivial=op == "Push")
        for guards, val in res:
            if isinstance(val, Exception):
                ctx.violation("UNANALYSABLE|%s" % key, fn.loc(), str(val)[:300])
                continue
            gtxt = [str(g[0]) for g in guards]
            removing = any(truth(g[1]) for g in guards if "gc" in str(g[0]))
            if not removing:
                ok = is_one(val)
                want = one()
            else:
                want = D.eval("u", {"fXpush": 1 if op == "Push" else 0})
                # op' in the docs is the next row's opcode, which the builder recomputes from the op bits
                opn = Poly.const(0)
                for i in range(7):
                    opn = opn + Poly.var("bit%d'" % i) * Poly.const(1 << i)
                want = want.subst({"opcode'": opn})
                ok = isinstance(val, Poly) and val == want
                # the guard itself must be f_dg = sp * (gc - gc') == 1
                g = [c for c, v, l in guards if "gc" in str(c)]
                fdg = Poly.var("sp") * (Poly.var("gc") - Poly.var("gc'"))
                okg = len(g) == 1 and isinstance(g[0], Term) and g[0].op == "eq" and (g[0].args[0] == fdg or g[0].args[0] == fdg.scale(1))
                ctx.oblig(okg)
                if not okg:
                    ctx.violation("table-guard|%s" % key, fn.loc(), "op group table removal is guarded by %s, the documented flag is f_dg = sp * (gc - gc')" % gtxt)
            ctx.oblig(ok)
            if not ok:
                ctx.violation("table-row|%s" % key, fn.loc(), "op group table, removal side, %s: the builder gives %s but the documented row is %s" % (op, str(val)[:200], str(want)[:200]))
    # ---------- stack overflow table (docs/src/design/stack/main.md)
    txt = open(decdocs.STACKDOC).read()
    m = re.search(r"### Overflow table constraints(.*?)\n##", txt, re.S)
    if not m:
        ctx.violation("doc-anchor|overflow-table", decdocs.STACKDOC, "overflow table section not found")
        return
    forms = {}
    for b in decdocs.blocks(m.group(1)):
        c = decdocs.clean(b)
        if c.count("=") == 1 and c.split("=")[0].strip() in ("u", "v"):
            forms[c.split("=")[0].strip()] = c.split("=")[1].strip()

    def var(name, idx, primed):
        if name == "alpha":
            return Poly.var("alpha%d" % idx)
        if name == "k":
            return Poly.var("clk")
        return Poly.var(name + ("" if idx is None else str(idx)) + ("'" if primed else ""))
    want = {k: LatexParser(tokenize(v), var, {}).expr() for k, v in forms.items()}
    ctx.floor("overflow-doc-formulas", len(want), 2)
    sb = [k for k in F.fns if re.search(r"stack::aux_trace::AuxTraceBuilder@AuxColumnBuilder::get_(requests|responses)_at$", strip_targs(k))]
    adt = F.adt(r"^miden_processor::stack::aux_trace::AuxTraceBuilder$")
    selfv = Agg([Opaque(f["name"]) for f in adt["variants"][0]["fields"]], "adt", adt["id"], adt["variants"][0]["name"])
    shifts = shift_classes(F, T)
    for op, oc in sorted(T.items(), key=lambda kv: kv[1]):
        for side, meth in (("v", "get_responses_at"), ("u", "get_requests_at")):
            fid = [k for k in sb if k.endswith(meth)][0]
            res = A.eval(fid, oc, selfv=selfv)
            cls = shifts.get(op, "?")
            key = "overflow|%s|%s" % (side, op)
            ctx.inst(key=key, nontrivial=cls in ("left", "right", "end"))
            for guards, val in res:
                if isinstance(val, Exception):
                    ctx.violation("UNANALYSABLE|%s" % key, F.fns[fid].loc(), str(val)[:300])
                    continue
                gt = {str(c): v for c, v, l in guards}
                h5 = [v for c, v in gt.items() if c.startswith("eq(h5")]
                end_left = cls == "end" and bool(h5) and truth(h5[0])
                if side == "v":
                    exp = want["v"] if cls == "right" else one()
                else:
                    left = cls == "left" or end_left
                    nonempty = [v for c, v in gt.items() if "b0" in c and "hs0" in c]
                    exp = want["u"] if (left and nonempty and truth(nonempty[0])) else one()
                    if left and not nonempty:
                        exp = None
                ok = exp is not None and isinstance(val, Poly) and val == exp
                ctx.oblig(ok)
                if not ok:
                    ctx.violation("table-row|%s" % key, F.fns[fid].loc(), "stack overflow table, %s side, %s (handler shift class %s, path %s): the builder gives %s but the documented row is %s"
                                  % ("insertion" if side == "v" else "removal", op, cls, gt, str(val)[:160], exp))


def felt_const(v):
    """Felt constants are stored in Montgomery form in the evaluated-constant facts"""
    return v * R_INV % P


def handler_of(F):
    """Operation variant -> handler functions called in its arm of Process::execute_op (from the MIR switch on the discriminant)"""
    ex = F.fn(r"^miden_processor::operations::Process::execute_op$")
    variants = {v["discr"]: v["name"] for v in opmodel.operation_variants(F)}
    out = {}
    sw = [b["t"] for b in ex.blocks if b["t"]["k"] == "switch" and len(b["t"]["arms"]) > 40]
    if len(sw) != 1:
        raise AnchorLost("execute_op: %d big switches" % len(sw))
    targets = {val: tgt for val, tgt in sw[0]["arms"]}
    allt = set(targets.values())
    for val, tgt in targets.items():
        hs = []
        seen, st = set(), [tgt]
        while st:
            b = st.pop()
            if b in seen or (b in allt and b != tgt):
                continue
            seen.add(b)
            t = ex.blocks[b]["t"]
            if t["k"] == "call" and re.search(r"Process::op_\w+$", t["f"].get("fn", "")):
                hs.append(t["f"]["fn"])
                continue
            st.extend(ex.succs(b))
        out[variants.get(val, val)] = hs
    return out


def shift_classes(F, T):
    """operation -> 'left' | 'right' | 'none' | 'end' from the handlers (operation model) and, for control operations, the decoder docs"""
    out = {}
    dt = docspec.decoder_table()
    for op in T:
        if op in CONTROL:
            out[op] = dt.get(op.upper(), "none" if op == "Halt" else "?")
            continue
        rs = [r for r in procmodel.run_operation(F, op) if r.outcome == "ok"]
        kinds = {r.shift[0][0] for r in rs if r.shift}
        if not rs:
            # unmodelled handlers: fall back to the call graph (which primitive the handler calls)
            fn = [F.fns[h] for h in handler_of(F).get(op, []) if h in F.fns]
            prim = set()
            for f in fn:
                for bi, c, t in f.calls():
                    m = re.search(r"Stack::(shift_left|shift_right|copy_state)$", c)
                    if m:
                        prim.add({"shift_left": "left", "shift_right": "right", "copy_state": "copy"}[m.group(1)])
            kinds = prim
        out[op] = "left" if kinds == {"left"} else "right" if kinds == {"right"} else "none" if kinds <= {"copy"} and kinds else "?" + ",".join(sorted(kinds))
    return out


def r4c_shift_predicates(ctx, F):
    A = auxmodel.AuxModel(F)
    T = opmodel.opcode_table(F)
    sh = shift_classes(F, T)
    fl = F.fn(r"^miden_air::trace::main_trace::MainTrace::is_left_shift$")
    fr = F.fn(r"^miden_air::trace::main_trace::MainTrace::is_right_shift$")
    for op, oc in sorted(T.items(), key=lambda kv: kv[1]):
        cls = sh[op]
        ctx.inst(key=op, nontrivial=cls != "none")
        if cls.startswith("?"):
            ctx.violation("shift-class-unknown|%s" % op, "processor/src/operations", "cannot determine the handler's shift class of %s (%s)" % (op, cls))
            continue
        for name, fn, mine in (("is_left_shift", fl, "left"), ("is_right_shift", fr, "right")):
            res = A.eval(fn.id, oc, args=lambda mt, al, row: [mt, row])
            for guards, val in res:
                if isinstance(val, Exception):
                    ctx.violation("UNANALYSABLE|%s|%s" % (name, op), fn.loc(), str(val)[:300])
                    continue
                h5 = [v for c, v, l in guards if str(c).startswith("eq(h5")]
                if cls == "end" and mine == "left":
                    # END shifts left exactly when the is_loop flag h5 is set
                    if isinstance(val, Term):
                        ok = val.op == "eq" and str(val.args[0]) == "h5" and str(val.args[1]) == "1"
                        want = "h5 == 1"
                    else:
                        want = truth(h5[0]) if h5 else None
                        ok = want is not None and val == want
                else:
                    want = cls == mine
                    ok = val == want
                ctx.oblig(ok)
                if not ok:
                    ctx.violation("shift-predicate|%s|%s" % (name, op), fn.loc(), "MainTrace::%s is %s for %s (path %s) but the operation's stack effect is %s: the overflow table gets a wrong or missing row"
                                  % (name, val, op, [(str(c), v) for c, v, l in guards], cls))


def r4b_who_inserts(ctx, F):
    A = auxmodel.AuxModel(F)
    T = opmodel.opcode_table(F)
    # operations emitted by decoder methods that push / pop the block stack (from the Operation constants in Decoder::start_* / end_* / respan)
    dec = {}
    for fn in F.find(r"^miden_processor::decoder::Decoder::(start_\w+|end_\w+|respan|repeat)$"):
        ops = set()
        for bi, st in fn.aggregates(r"operations::Operation$"):
            ops.add(st["r"].get("variant"))
        for b in fn.blocks:
            for s in b["s"]:
                for o in fn.rvalue_operands(s["r"]):
                    c = o.get("c")
                    if isinstance(c, dict) and str(c.get("ty", "")).endswith("Operation") and c.get("variant"):
                        ops.add(c["variant"])
            t = b["t"]
            if t["k"] == "call":
                for o in t["args"]:
                    c = o.get("c")
                    if isinstance(c, dict) and str(c.get("ty", "")).endswith("Operation") and c.get("variant"):
                        ops.add(c["variant"])
        pushes = len(fn.calls_to(r"BlockStack::push$"))
        pops = len(fn.calls_to(r"BlockStack::pop$"))
        dec[fn.name] = (ops - {None}, pushes, pops)
    ctx.sample({"decoder_methods": {k: (sorted(v[0]), v[1], v[2]) for k, v in dec.items()}})
    pushing = set().union(*[v[0] for v in dec.values() if v[1]]) if dec else set()
    popping = set().union(*[v[0] for v in dec.values() if v[2]]) if dec else set()
    ctx.floor("block-stack-pushers", len(pushing), 7)

    def nontrivial(builder, side, op):
        res, fn = table_eval(A, F, builder, side, T[op])
        return any(not is_one(v) for g, v in res), fn
    for op in sorted(pushing):
        ctx.inst(key="block-stack|inserts|%s" % op, nontrivial=True)
        nt, fn = nontrivial("BlockStackColumnBuilder", "v", op)
        ctx.oblig(nt)
        if not nt:
            ctx.violation("no-insertion|block-stack|%s" % op, fn.loc(), "%s pushes the decoder's block stack but inserts no row into the block stack table" % op)
    for op in sorted(popping | {"Respan"}):
        ctx.inst(key="block-stack|removes|%s" % op, nontrivial=True)
        nt, fn = nontrivial("BlockStackColumnBuilder", "u", op)
        ctx.oblig(nt)
        if not nt:
            ctx.violation("no-removal|block-stack|%s" % op, fn.loc(), "%s pops the decoder's block stack but removes no row from the block stack table" % op)
    # executors that run child blocks: their start operation must add the children to the block hash table, since every child's END removes a row
    starts = {"execute_join_block": "start_join", "execute_split_block": "start_split", "execute_loop_block": "start_loop", "execute_call_block": "start_call", "execute_dyn_block": "start_dyn"}
    for ex in F.find(r"^miden_processor::Process::execute_\w+_block$"):
        runs_children = bool(ex.calls_to(r"Process::execute_code_block$|Process::execute_span_block$"))
        ctx.inst(key="executor|%s" % ex.name, nontrivial=runs_children)
        if not runs_children:
            continue
        ops = set()
        for fid in F.reachable([ex.id]):
            m = re.search(r"decoder::Decoder::(start_\w+|repeat)$", fid)
            if m and F.call_path(ex.id, lambda x: x == fid) and len(F.call_path(ex.id, lambda x: x == fid)) <= 3:
                ops |= dec.get(m.group(1), (set(), 0, 0))[0]
        ops -= {"Span", "Respan", "End", "Noop"}
        for op in sorted(ops):
            ctx.inst(key="block-hash|inserts|%s" % op, nontrivial=True)
            nt, fn = nontrivial("BlockHashTableColumnBuilder", "v", op)
            ctx.oblig(nt)
            if not nt:
                ctx.violation("no-insertion|block-hash|%s" % op, fn.loc(), "%s (executor %s) runs a child block whose END removes a row from the block hash table, but %s inserts none" % (op, ex.name, op))


# -------------------------------------------------------------------------------------------------------------------
# chiplets bus

def handler_effects(F, op):
    rs = [r for r in procmodel.run_operation(F, op) if r.outcome == "ok"]
    return rs


MUT = r"^miden_processor::chiplets::Chiplets::(read_mem|read_mem_double|write_mem|write_mem_element|write_mem_double|u32and|u32xor|permute|build_merkle_root|update_merkle_root|hash_control_block|hash_span_block|absorb_span_batch|access_kernel_proc)$"


def mutators_of(F, fid):
    hit = set()
    for r in list(F.reachable([fid])) + [fid]:
        if r in F.fns:
            for bi, c, t in F.fns[r].calls():
                m = re.search(MUT, c)
                if m:
                    hit.add(m.group(1))
    return hit


def chiplet_callers(F):
    """operation -> set of chiplet mutators reachable from its handler (call graph), for operations the model does not cover"""
    MUT = r"^miden_processor::chiplets::Chiplets::(read_mem|read_mem_double|write_mem|write_mem_element|write_mem_double|u32and|u32xor|permute|build_merkle_root|update_merkle_root|hash_control_block|hash_span_block|absorb_span_batch|access_kernel_proc)$"
    out = {}
    for fn in F.find(r"^miden_processor::operations::\w+::Process::op_\w+$"):
        reach = F.reachable([fn.id])
        hit = {re.search(MUT, r).group(1) for r in reach if re.search(MUT, r)}
        for bi, c, t in fn.calls():
            m = re.search(MUT, c)
            if m:
                hit.add(m.group(1))
        out[fn.name] = hit
    for fn in F.find(r"^miden_processor::decoder::Process::(start_\w+|end_\w+|respan)$"):
        hit = set()
        for r in list(F.reachable([fn.id])) + [c for bi, c, t in fn.calls()]:
            m = re.search(MUT, r)
            if m:
                hit.add(m.group(1))
        out[fn.name] = hit
    return out


def r1_requesters(ctx, F):
    A = auxmodel.AuxModel(F)
    T = opmodel.opcode_table(F)
    cg = chiplet_callers(F)
    H = handler_of(F)
    ctrl = {"Join": "start_join_block", "Split": "start_split_block", "Loop": "start_loop_block", "Call": "start_call_block", "SysCall": "start_call_block", "Dyn": "start_dyn_block",
            "Span": "start_span_block", "Respan": "respan", "End": None, "Repeat": None, "Halt": None}
    fid = builder_fn(F, "BusColumnBuilder", "get_requests_at")
    info = {}
    for op, oc in sorted(T.items(), key=lambda kv: kv[1]):
        if op in ctrl:
            makes = cg.get(ctrl[op], set()) if ctrl[op] else set()
            if op in LATE_CONSUMERS:
                makes = {LATE_CONSUMERS[op]}
        else:
            makes = set()
            for h in H.get(op, []):
                makes |= mutators_of(F, h)
        res = A.eval(fid, oc, max_paths=2048)
        und = [v for g, v in res if isinstance(v, Exception)]
        nt = any(not is_one(v) for g, v in res if not isinstance(v, Exception))
        info[op] = (makes, nt)
        ctx.inst(key=op, nontrivial=bool(makes) or nt)
        if und and not nt:
            ctx.violation("UNANALYSABLE|bus-request|%s" % op, F.fns[fid].loc(), str(und[0])[:300])
            continue
        ok = bool(makes) == nt
        ctx.oblig(ok)
        if makes and not nt:
            ctx.violation("no-bus-request|%s" % op, F.fns[fid].loc(), "%s makes a chiplet record rows (%s) but BusColumnBuilder::get_requests_at has no request for it: the chiplets bus cannot balance for any program using it" % (op, sorted(makes)))
        elif nt and not makes:
            ctx.violation("spurious-bus-request|%s" % op, F.fns[fid].loc(), "%s has a bus request but its handler makes no chiplet record a row" % op)
    # requests are computed from the decoder / stack / system columns of rows i and i+1; a chiplet column read at a row offset
    # relative to the *decoder* row mixes two row domains (chiplet rows are addressed by hasher/memory addresses)
    for op, oc in sorted(T.items(), key=lambda kv: kv[1]):
        A.eval(fid, oc, max_paths=2048)
        bad = sorted((A.names.get(c, c), r) for c, r in A.touched if isinstance(c, int) and c >= A.CHP and r != "sym")
        ctx.inst(key="request-columns|%s" % op, nontrivial=bool(info.get(op, (None, False))[1]))
        ctx.oblig(not bad)
        if bad:
            ctx.violation("request-reads-chiplet-rows|%s" % op, F.fns[fid].loc(), "the bus request of %s reads chiplet columns at rows relative to the decoder row (%s): chiplet rows are not aligned with decoder rows, so the request matches the chiplet's response only by coincidence"
                          % (op, ["%s@i%+d" % (n, r) for n, r in bad][:6]))
    ctx.sample({"requesters": sorted(op for op, (m, nt) in info.items() if nt)})
    ctx.floor("requesters", sum(1 for m, nt in info.values() if nt), 19)
    return info


def alpha_degree(p):
    if not isinstance(p, Poly):
        return None
    d = 0
    for mono, c in p.t.items():
        d = max(d, sum(e for v, e in mono if v.startswith("alpha")))
    return d


def r2_arity(ctx, F):
    A = auxmodel.AuxModel(F)
    T = opmodel.opcode_table(F)
    fid = builder_fn(F, "BusColumnBuilder", "get_requests_at")
    for op, oc in sorted(T.items(), key=lambda kv: kv[1]):
        res = [(g, v) for g, v in A.eval(fid, oc, max_paths=2048) if not isinstance(v, Exception)]
        degs = {alpha_degree(v) for g, v in res}
        if op in HASHER_LOOKUPS:
            want = HASHER_LOOKUPS[op]
            src = "hasher lookups (docs/src/design/chiplets/hasher.md)"
        elif op in CONTROL:
            want, src = 0, "no chiplet interaction"
        else:
            rs = handler_effects(F, op)
            if rs:
                want = max(sum(MEM_ROWS.get(e[0], 1 if e[0] in ("u32and", "u32xor") else 0) for e in r.effects) for r in rs)
                src = "rows recorded by the handler"
            else:
                # unmodelled handler (RCOMBBASE, FRIE2F4): count memory calls on the call graph
                want = 0
                for h in handler_of(F).get(op, []):
                    for x in [h] + [y for y in F.reachable([h]) if y.startswith("miden_processor::operations")]:
                        f2 = F.fns[x]
                        want += len(f2.calls_to(r"Chiplets::(read_mem|write_mem|write_mem_element)$")) + 2 * len(f2.calls_to(r"Chiplets::(read_mem_double|write_mem_double)$"))
                src = "memory calls on the handler's call graph"
        ctx.inst(key=op, nontrivial=want > 0)
        ok = degs == {want}
        ctx.oblig(ok)
        if not ok and not (want > 0 and degs == {0}):      # the missing-request case is reported by R1
            ctx.violation("request-arity|%s" % op, F.fns[fid].loc(), "%s: the bus request has %s factors but %d are needed (%s)" % (op, sorted(degs), want, src))


def chiplet_rows(F):
    """rows each Chiplets memory/bitwise entry point records, by interpreting it with recording Memory/Bitwise models:
    name -> list of (kind, ctx, addr, clk, word)"""
    out = {}
    adt = F.adt(r"^miden_processor::chiplets::Chiplets$")
    fields = [f["name"] for f in adt["variants"][0]["fields"]]
    for name, nargs in (("read_mem", 2), ("read_mem_double", 2), ("write_mem", 3), ("write_mem_element", 3), ("write_mem_double", 3)):
        fn = F.fn(r"^miden_processor::chiplets::Chiplets::%s$" % name)
        rows = []
        I = Interp(F)
        procmodel.install_field(I)
        cnt = [0]

        def rd(I, a, f):
            cnt[0] += 1
            w = [Poly.var("rd%d_%d" % (cnt[0], k)) for k in range(4)]
            rows.append(("read", a[1], a[2], a[3], w))
            return Agg(w, "array")

        def wr(I, a, f):
            rows.append(("write", a[1], a[2], a[3], list(deref(a[4]).items)))
            return Agg([], "tuple")

        def old(I, a, f):
            cnt[0] += 1
            return Agg([Poly.var("old%d_%d" % (cnt[0], k)) for k in range(4)], "array")
        I.overrides.append((re.compile(r"memory::Memory::read$"), rd))
        I.overrides.append((re.compile(r"memory::Memory::write$"), wr))
        I.overrides.append((re.compile(r"memory::Memory::get_old_value$"), old))
        selfv = Agg([Term("clk") if n == "clk" else Opaque(n) for n in fields], "adt", adt["id"], adt["variants"][0]["name"])
        args = [Ptr([selfv], 0), Poly.var("ctx"), Term("addr")]
        if nargs == 3:
            if name == "write_mem_element":
                args.append(Poly.var("val"))
            elif name == "write_mem_double":
                args.append(Agg([Agg([Poly.var("w%d" % k) for k in range(4)], "array"), Agg([Poly.var("w%d" % (4 + k)) for k in range(4)], "array")], "array"))
            else:
                args.append(Agg([Poly.var("w%d" % k) for k in range(4)], "array"))
        res = I.call(fn.id, args)
        out[name] = (rows, res)
    return out


def r3_memory_bitwise(ctx, F):
    A = auxmodel.AuxModel(F)
    T = opmodel.opcode_table(F)
    C = lambda pat: (lambda c: c["val"] if isinstance(c, dict) and "val" in c else c)(F.const(pat))
    # response multiplicand of a memory row as a function of the row's cells
    resp = F.fn(r"^miden_processor::chiplets::aux_trace::build_memory_chiplet_responses$")
    cols = {C(r"chiplets::MEMORY_CTX_COL_IDX$"): "m_ctx", C(r"chiplets::MEMORY_ADDR_COL_IDX$"): "m_addr", C(r"chiplets::MEMORY_CLK_COL_IDX$"): "m_clk"}
    vr = C(r"chiplets::MEMORY_V_COL_RANGE$")
    v0 = vr["fields"][0] if isinstance(vr, dict) else vr[0]
    for k in range(4):
        cols[v0 + k] = "m_v%d" % k
    saved = dict(A.names)
    A.names.update(cols)
    rp = {}
    for is_read in (0, 1):
        r = A.eval(resp.id, None, args=lambda mt, al, row: [mt, row, Poly.const(is_read), al])
        rp[is_read] = r[0][1]
    A.names = saved
    labels = {"read": C(r"chiplets::memory::MEMORY_READ_LABEL$"), "write": C(r"chiplets::memory::MEMORY_WRITE_LABEL$")}
    lab = {k: rp[k].coeff_of("alpha1").const_value() if hasattr(rp[k], "coeff_of") else None for k in rp}
    ctx.inst(key="memory-labels", nontrivial=True)
    ctx.sample({"memory_response": str(rp[1]), "labels": {"MEMORY_READ_LABEL": labels["read"], "MEMORY_WRITE_LABEL": labels["write"], "response(selector=1)": lab[1], "response(selector=0)": lab[0]}})
    ok = lab[1] == labels["read"] and lab[0] == labels["write"] and labels["read"] != labels["write"]
    ctx.oblig(ok)
    if not ok:
        ctx.violation("memory-labels", resp.loc(), "memory chiplet responses carry labels %s but requests use READ=%s WRITE=%s" % (lab, labels["read"], labels["write"]))
    rows_of = chiplet_rows(F)
    fid = builder_fn(F, "BusColumnBuilder", "get_requests_at")
    MEMOPS = ["MLoadW", "MLoad", "MStoreW", "MStore", "MStream", "Pipe"]
    for op in MEMOPS:
        rs = handler_effects(F, op)
        ctx.inst(key="memory|%s" % op, nontrivial=True)
        if not rs:
            ctx.violation("UNANALYSABLE|handler|%s" % op, "processor/src/operations/io_ops.rs", "no analysable successful path of %s" % op)
            continue
        r = rs[0]
        effs = [e for e in r.effects if e[0] in MEM_ROWS]
        # expected product of responses for the rows this handler makes the memory chiplet record
        exp = Poly.const(1)
        fresh = iter(sorted([str(x) for x in r.nxt if x is not None and re.match(r"^(mem|memold)#\d+$", str(x))] + [str(h) for h in (r.helpers or []) if re.match(r"^(mem|memold)#\d+$", str(h))], key=lambda s: int(s.split("#")[1])))
        for e in effs:
            entry = {"mem_read": "read_mem", "mem_read2": "read_mem_double", "mem_write": "write_mem", "mem_write_elem": "write_mem_element", "mem_write2": "write_mem_double"}[e[0]]
            rows, res = rows_of[entry]
            env = {"ctx": Poly.var("ctx")}
            addr = e[2]
            m = re.match(r"^as_u32\(as_int\((s\d+)\)\)$", str(addr))
            addrp = Poly.var(m.group(1)) if m else None
            if addrp is None:
                ctx.violation("UNANALYSABLE|addr|%s" % op, "processor/src/operations/io_ops.rs", "address expression %s" % addr)
                continue
            written = None
            if len(e) > 3:
                written = e[3]
            for kind, rctx, raddr, rclk, word in rows:
                # address of the row relative to the entry point's address argument
                off = 0
                sa = str(raddr)
                mm = re.match(r"^\+\??\(addr, (\d+)\)$", sa)
                if mm:
                    off = int(mm.group(1))
                elif sa != "addr":
                    ctx.violation("UNANALYSABLE|row-addr|%s" % entry, "processor/src/chiplets/mod.rs", "row address %s" % sa)
                vals = []
                for w in word:
                    s = str(w)
                    if s.startswith("rd") or s.startswith("old"):
                        vals.append(Poly.var(next(fresh)))      # value the chiplet returns: appears in the handler as mem#n / memold#n in order
                    elif s.startswith("w") and written is not None:
                        items = deref(written).items
                        flat = []
                        for it in items:
                            flat += list(deref(it).items) if isinstance(deref(it), Agg) else [it]
                        vals.append(flat[int(s[1:])])
                    elif s == "val" and written is not None:
                        vals.append(written)
                    else:
                        vals.append(w)
                sub = {"m_ctx": Poly.var("ctx"), "m_addr": addrp + Poly.const(off), "m_clk": Poly.var("clk")}
                for k in range(4):
                    sub["m_v%d" % k] = vals[k] if isinstance(vals[k], Poly) else Poly.var(str(vals[k]))
                exp = exp * rp[1 if kind == "read" else 0].subst(sub)
        # the request, with next-row cells and helper registers replaced by what the handler writes there
        res = [(g, v) for g, v in A.eval(fid, T[op]) if not isinstance(v, Exception)]
        if len(res) != 1:
            ctx.violation("UNANALYSABLE|bus-request|%s" % op, F.fns[fid].loc(), "%d paths" % len(res))
            continue
        req = res[0][1]
        sub = {}
        for k in range(16):
            if r.nxt[k] is not None and isinstance(r.nxt[k], Poly):
                sub["s%d'" % k] = r.nxt[k]
        for k, h in enumerate(r.helpers or []):
            sub["h%d" % (2 + k)] = h if isinstance(h, Poly) else Poly.var(str(h))      # user-op helper k lives in decoder hasher column 2+k
        reqs = req.subst(sub) if isinstance(req, Poly) else req
        ok = isinstance(reqs, Poly) and reqs == exp
        ctx.oblig(ok)
        if len(ctx.samples) < 8:
            ctx.sample({"op": op, "request": str(req)[:300], "rows_recorded": [e[0] for e in effs], "match": bool(ok)})
        if not ok:
            if is_one(req) and effs:
                continue        # reported by R1 as a missing request
            ctx.violation("request-vs-rows|%s" % op, F.fns[fid].loc(), "%s: the bus request %s does not equal the product of the memory chiplet's responses for the rows the handler records (%s): %s"
                          % (op, str(reqs)[:300], [e[0] for e in effs], str(exp)[:300]))
    # bitwise
    respb = F.fn(r"^miden_processor::chiplets::aux_trace::build_bitwise_chiplet_responses$")
    bcols = {C(r"chiplets::BITWISE_A_COL_IDX$"): "bw_a", C(r"chiplets::BITWISE_B_COL_IDX$"): "bw_b", C(r"chiplets::BITWISE_OUTPUT_COL_IDX$"): "bw_z"}
    cyc = C(r"chiplets::bitwise::OP_CYCLE_LEN$")
    saved = dict(A.names)
    A.names.update(bcols)
    for op, is_xor in (("U32and", 0), ("U32xor", 1)):
        ctx.inst(key="bitwise|%s" % op, nontrivial=True)
        r = A.eval(respb.id, None, args=lambda mt, al, row: [mt, row, Poly.const(is_xor), al], row=cyc - 1)
        rb = [v for g, v in r if isinstance(v, Poly) and not is_one(v)]
        A.names = saved
        rs = handler_effects(F, op)
        e = [x for x in rs[0].effects if x[0] in ("u32and", "u32xor")] if rs else []
        req = [(g, v) for g, v in A.eval(fid, T[op]) if not isinstance(v, Exception)]
        A.names.update(bcols)
        if len(rb) != 1 or len(e) != 1 or len(req) != 1:
            ctx.violation("UNANALYSABLE|bitwise|%s" % op, respb.loc(), "responses %d, handler calls %d, request paths %d" % (len(rb), len(e), len(req)))
            continue
        vmap = {}
        for vn in rb[0].vars():
            for base, val in (("bw_a", e[0][1]), ("bw_b", e[0][2]), ("bw_z", rs[0].nxt[0])):
                if vn.startswith(base):
                    vmap[vn] = val
        exp = rb[0].subst(vmap)
        got = req[0][1].subst({"s0'": rs[0].nxt[0]})
        ok = got == exp and e[0][0] == op.lower()
        ctx.oblig(ok)
        if not ok:
            ctx.violation("request-vs-rows|%s" % op, F.fns[fid].loc(), "%s: request %s vs the bitwise chiplet's response for the row the handler records %s" % (op, got, exp))
    A.names = saved


class MapScenario(Opaque):
    """a BTreeMap seen through its entry API under one scenario: the looked-up key is present (with value `cur`) or absent"""
    def __init__(self, name, present, cur):
        Opaque.__init__(self, name)
        self.present, self.cur, self.log = present, cur, []


def r5_range_conservation(ctx, F):
    """RangeChecker::add_range_checks: every value is counted once in the multiplicity table and all values are recorded for
    the row, whether or not the row already has recorded values (u32 operation and memory access on the same row index), and
    whether or not the value was counted before. The BTreeMap entry API is modelled generically (entry / and_modify /
    or_insert / or_insert_with / or_default on a slot that is present or vacant), so the verdict does not depend on which
    combination of these calls the code uses."""
    fn = F.fn(r"^miden_processor::range::RangeChecker::add_range_checks$")
    adt = F.adt(r"^miden_processor::range::RangeChecker$")
    fields = [f["name"] for f in adt["variants"][0]["fields"]]
    for present in (False, True):
        for counted in (False, True):
            for nvals in (2, 4):
                key = "add_range_checks|row-%s|%d-values" % ("occupied" if present else "vacant", nvals)
                if counted:
                    key += "|values-seen-before"
                ctx.inst(key=key, nontrivial=True)
                vals = [Term("v%d" % i) for i in range(nvals)]
                old = [Term("old0"), Term("old1")]
                cyc = MapScenario("cycle_lookups", present, Agg(list(old), "vec") if present else None)
                cnt = MapScenario("lookups", counted, None)
                I = Interp(F)
                add = lambda rx, m: I.overrides.append((re.compile(rx), m))

                def entry(I, a, f):
                    m = deref(a[0])
                    e = Opaque("entry")
                    e.map, e.key = m, a[1]
                    if m.name == "lookups":
                        e.present = m.present
                        e.slot = [Term("count", a[1]) if m.present else None]
                    else:
                        e.present = m.present
                        e.slot = [m.cur]
                    m.log.append((a[1], e.slot))
                    return e
                add(r"btree::map::BTreeMap::entry$", entry)

                def and_modify(I, a, f):
                    e = a[0]
                    if e.present:
                        I.call_closure(a[1], [Ptr(e.slot, 0)])
                    return e
                add(r"btree::map::entry::Entry::and_modify$", and_modify)

                def fill(e, mk):
                    if not e.present:
                        e.slot[0] = mk()
                        e.present = True
                    return Ptr(e.slot, 0)
                add(r"btree::map::entry::Entry::or_insert$", lambda I, a, f: fill(a[0], lambda: a[1]))
                add(r"btree::map::entry::Entry::or_insert_with$", lambda I, a, f: fill(a[0], lambda: I.call_closure(a[1], [])))

                def or_default(I, a, f):
                    ga = [str(g) for g in (getattr(f, "ga", None) or [])]
                    is_vec = any("Vec<" in g for g in ga[1:2]) or a[0].map.name == "cycle_lookups"
                    return fill(a[0], lambda: Agg([], "vec") if is_vec else 0)
                add(r"btree::map::entry::Entry::or_default$", or_default)
                add(r"slice::\[T\]::to_vec$|slice::<impl \[T\]>::to_vec$|::to_vec$", lambda I, a, f: Agg(list((a[0] if isinstance(a[0], SlicePtr) else I.as_slice(a[0])).values()), "vec"))
                selfv = Agg([{"lookups": cnt, "cycle_lookups": cyc}.get(n, Opaque(n)) for n in fields], "adt", adt["id"], adt["variants"][0]["name"])
                try:
                    I.call(fn.id, [Ptr([selfv], 0), Term("row"), SlicePtr(list(vals), 0, nvals)])
                except (Unanalysable, PanicReached) as e:
                    ctx.violation("UNANALYSABLE|%s" % key, fn.loc(), str(e)[:300])
                    continue
                finals = [sl[0] for k, sl in cyc.log]
                final = finals[-1] if finals else None
                got = [repr(x) for x in final.items] if isinstance(final, Agg) else None
                want = ([repr(x) for x in old] if present else []) + [repr(v) for v in vals]
                ok = got == want and len(cyc.log) == 1 and repr(cyc.log[0][0]) == "row"
                ctx.oblig(ok)
                if not ok:
                    ctx.violation("range-row-lookups|%s" % ("occupied" if present else "vacant"), fn.loc(),
                                  "add_range_checks on a row that %s records %s for the row; expected %s: lookups of that row are lost, so b_range subtracts fewer values than the table's multiplicities add"
                                  % ("already has lookups [old0, old1]" if present else "has no lookups yet", got, want))
                wantc = [(repr(v), ("+(count(%r), 1)" % (v,)) if counted else "1") for v in vals]
                gotc = [(repr(k), repr(sl[0])) for k, sl in cnt.log]
                okc = gotc == wantc
                ctx.oblig(okc)
                if not okc:
                    ctx.violation("range-multiplicity", fn.loc(), "add_range_checks must increment the multiplicity of each value exactly once (counted before: +1, otherwise 1): got %s, expected %s" % (gotc, wantc))


def mod8(t, res):
    """residue mod 8 of an integer term / field polynomial under residues `res` (variable name -> residue); None if unknown.
    Addresses are small integers, so field arithmetic on them does not wrap."""
    if isinstance(t, bool):
        return int(t)
    if isinstance(t, int):
        return t % 8
    if isinstance(t, Poly):
        tot = 0
        for m, c in t.t.items():
            c = c if c <= P // 2 else c - P
            term = c % 8
            for v, e in m:
                if term == 0:
                    break
                if v not in res:
                    return None
                term = term * (res[v] ** e) % 8
            tot = (tot + term) % 8
        return tot
    if isinstance(t, Term):
        if t.op in ("as_int", "as_usize", "as_u64", "as_u32") and len(t.args) == 1:
            return mod8(t.args[0], res)
        if t.op in ("+", "-", "*") and len(t.args) == 2:
            a, b = mod8(t.args[0], res), mod8(t.args[1], res)
            if a is None or b is None:
                return None
            return (a + b) % 8 if t.op == "+" else (a - b) % 8 if t.op == "-" else (a * b) % 8
        if t.op == "%" and len(t.args) == 2 and t.args[1] == 8:
            return mod8(t.args[0], res)
    return None


def consistent_paths(res_paths, residues):
    """paths whose `% 8` guards agree with the residues (a hasher address handed to the stack is the first row of a cycle: 1 mod 8)"""
    out = []
    for g, v in res_paths:
        ok = True
        for c, val, l in g:
            r = mod8(c, residues)
            if r is None:
                continue
            if isinstance(val, tuple):
                ok = ok and (r not in val[1])
            else:
                ok = ok and (r == val)
        if ok:
            out.append((g, v))
    return out


def r4e_hasher_requests(ctx, F):
    """HPERM, MPVERIFY, MRUPDATE: the bus request equals the product of the documented values (docs/src/design/stack/crypto_ops.md),
    with labels m = op_label + 16 (first row of a hash cycle) / + 32 (last row) as in docs/src/design/chiplets/hasher.md"""
    A = auxmodel.AuxModel(F)
    T = opmodel.opcode_table(F)
    C = lambda pat: (lambda c: c["val"] if isinstance(c, dict) and "val" in c else c)(F.const(pat))
    lab = {"linhash": C(r"hasher::LINEAR_HASH_LABEL$") + 16, "retstate": C(r"hasher::RETURN_STATE_LABEL$") + 32, "mpver": C(r"hasher::MP_VERIFY_LABEL$") + 16,
           "rethash": C(r"hasher::RETURN_HASH_LABEL$") + 32, "mruold": C(r"hasher::MR_UPDATE_OLD_LABEL$") + 16, "mrunew": C(r"hasher::MR_UPDATE_NEW_LABEL$") + 16}
    path = "/repo/docs/src/design/stack/crypto_ops.md"
    txt = open(path).read()
    secs = {}
    for m in re.finditer(r"^## ([A-Z0-9]+)\n(.*?)(?=^## |\Z)", txt, re.S | re.M):
        secs[m.group(1)] = m.group(2)
    fid = builder_fn(F, "BusColumnBuilder", "get_requests_at")
    helper0 = "h2"      # user-op helper register 0 is decoder hasher column 2

    def var(name, idx, primed):
        if name == "alpha":
            return Poly.var("alpha%d" % idx)
        if name.startswith("opX"):
            return Poly.const(lab[name[3:]])
        if name == "h" and idx == 0:
            return Poly.var(helper0)
        if name == "s":
            return Poly.var("s%d%s" % (idx, "'" if primed else ""))
        raise LatexError("unknown symbol %s_%s" % (name, idx))
    for op, sec in (("HPerm", "HPERM"), ("MpVerify", "MPVERIFY"), ("MrUpdate", "MRUPDATE")):
        ctx.inst(key=op, nontrivial=True)
        if sec not in secs:
            ctx.violation("doc-anchor|%s" % sec, path.replace("/repo/", ""), "section %s not found" % sec)
            continue
        want = Poly.const(1)
        n = 0
        try:
            for b in decdocs.blocks(secs[sec]):
                c = decdocs.clean(b)
                if c.count("=") != 1:
                    continue
                lhs, rhs = [x.strip() for x in c.split("=")]
                if not lhs.startswith("vX"):
                    continue
                pr = LatexParser(tokenize(rhs), var, {})
                want = want * pr.expr()
                n += 1
        except LatexError as e:
            ctx.violation("doc-unparsed|%s" % sec, path.replace("/repo/", ""), str(e)[:200])
            continue
        res = [(g, v) for g, v in A.eval(fid, T[op], max_paths=4096) if not isinstance(v, Exception)]
        good = consistent_paths(res, {helper0: 1, "s4": 0, "s4_any": 0})
        # s4 (tree depth) is arbitrary: 8*s4 vanishes mod 8 whatever s4 is
        good = consistent_paths(res, {helper0: 1, "s4": 1}) if not good else [x for x in good if x in consistent_paths(res, {helper0: 1, "s4": 1})]
        ok = len(good) == 1 and isinstance(good[0][1], Poly) and good[0][1] == want
        ctx.oblig(ok)
        ctx.sample({"op": op, "documented_factors": n, "paths": len(res), "paths_consistent_with_cycle_alignment": len(good)})
        if not ok:
            got = good[0][1] if good else None
            diff = (got - want) if isinstance(got, Poly) else None
            ctx.violation("hasher-request|%s" % op, F.fns[fid].loc(), "%s: the chiplets-bus request is not the product of the %d documented values (crypto_ops.md %s) for a hasher address aligned to a hash cycle; %s"
                          % (op, n, sec, ("difference: %s" % str(diff)[:300]) if diff is not None else "%d consistent paths" % len(good)))


def r4g_control_requests(ctx, F):
    """control-block bus requests vs docs/src/design/decoder/constraints.md ("Block hash computation constraints"):
    JOIN/SPLIT/LOOP/DYN/CALL: h_init + alpha5*d; SPAN: h_init; END: h_res; SYSCALL: (h_init + alpha5*d) * k_proc"""
    A = auxmodel.AuxModel(F)
    T = opmodel.opcode_table(F)
    C = lambda pat: (lambda c: c["val"] if isinstance(c, dict) and "val" in c else c)(F.const(pat))
    m_bp, m_hout = C(r"hasher::LINEAR_HASH_LABEL$") + 16, C(r"hasher::RETURN_HASH_LABEL$") + 32
    krom = C(r"chiplets::kernel_rom::KERNEL_PROC_LABEL$")
    krom = krom * R_INV % P if isinstance(krom, int) and krom > 2 ** 32 else krom
    lines = open(decdocs.DOC).read().split("\n")
    st = [i for i, l in enumerate(lines) if l.startswith("## Block hash computation constraints")]
    en = [i for i, l in enumerate(lines) if l.startswith("## Block stack table constraints")]
    if len(st) != 1 or len(en) != 1:
        ctx.violation("doc-anchor|block-hash-computation", "docs/src/design/decoder/constraints.md", "section not found")
        return
    txt = "\n".join(lines[st[0]:en[0]])
    defs = {}
    for b in decdocs.blocks(txt):
        c = decdocs.clean(b)
        if c.count("=") == 1:
            lhs, rhs = [x.strip() for x in c.split("=")]
            defs[lhs] = rhs
    ctx.floor("control-request-doc-formulas", len([k for k in defs if k.startswith(("hX", "uX", "kX"))]), 6)
    fid = builder_fn(F, "BusColumnBuilder", "get_requests_at")

    def mk(opcode):
        def var(name, idx, primed):
            if name == "alpha":
                return Poly.var("alpha%d" % idx)
            if name == "mXbp":
                return Poly.const(m_bp)
            if name == "mXhout":
                return Poly.const(m_hout)
            if name == "opXkrom":
                return Poly.const(krom)
            if name == "d" and idx is None:
                return Poly.const(opcode)
            if name == "a" and idx is None:
                return Poly.var("a'" if primed else "a")
            if name == "h" and idx is not None:
                return Poly.var("h%d" % idx)
            if name.startswith("fX"):
                return Poly.const(1)
            if name in defs and idx is None:
                return LatexParser(tokenize(defs[name]), var, {}).expr()
            raise LatexError("unknown symbol %s_%s" % (name, idx))
        return var
    table = {"Join": "uXctrli", "Split": "uXctrli", "Loop": "uXctrli", "Dyn": "uXctrli", "Call": "uXctrli", "Span": "uXspan", "End": "uXend", "SysCall": "uXsyscall"}
    for op, key in table.items():
        ctx.inst(key=op, nontrivial=True)
        try:
            want = LatexParser(tokenize(defs[key]), mk(T[op]), {}).expr()
            if op == "SysCall":
                # DOC_DISCREPANCY: constraints.md writes k_proc with alpha6, alpha7, alpha8..; the kernel ROM chiplet's response (kernel_rom.md) is
                # alpha0 + alpha1*op_krom + sum alpha_{i+2}*r_i and a request must equal the response it cancels
                hinit = LatexParser(tokenize(defs["hXinit"]), mk(T[op]), {}).expr() + Poly.var("alpha5") * Poly.const(T[op])
                kp = Poly.var("alpha0") + Poly.var("alpha1") * Poly.const(krom)
                for i in range(4):
                    kp = kp + Poly.var("alpha%d" % (i + 2)) * Poly.var("h%d" % i)
                want = hinit * kp
        except (LatexError, KeyError) as e:
            ctx.violation("doc-unparsed|control-request|%s" % op, "docs/src/design/decoder/constraints.md", str(e)[:200])
            continue
        res = [(g, v) for g, v in A.eval(fid, T[op], max_paths=512) if not isinstance(v, Exception)]
        # block addresses are hasher addresses of first rows of a cycle (1 mod 8); END reads the row a + 7
        good = consistent_paths(res, {"a'": 1, "a": 1})
        ok = len(good) == 1 and isinstance(good[0][1], Poly) and good[0][1] == want
        ctx.oblig(ok)
        if not ok:
            got = good[0][1] if good else None
            ctx.violation("control-request|%s" % op, F.fns[fid].loc(), "%s: the chiplets-bus request %s differs from the documented value %s" % (op, str(got)[:200], str(want)[:200]))


def r4f_hasher_responses(ctx, F):
    """hasher chiplet rows: the bus response has the documented form (docs/src/design/chiplets/hasher.md, "Multiset check
    constraints") for each transition flag, and is 1 on every other hasher row"""
    A = auxmodel.AuxModel(F)
    C = lambda pat: (lambda c: c["val"] if isinstance(c, dict) and "val" in c else c)(F.const(pat))
    L = {n: C(r"hasher::%s$" % n) for n in ("LINEAR_HASH_LABEL", "RETURN_STATE_LABEL", "MP_VERIFY_LABEL", "RETURN_HASH_LABEL", "MR_UPDATE_OLD_LABEL", "MR_UPDATE_NEW_LABEL")}
    txt = open("/repo/docs/src/design/chiplets/hasher.md").read()
    m = re.search(r"### Multiset check constraints(.*?)#### Sibling table constraints", txt, re.S)
    if not m:
        ctx.violation("doc-anchor|hasher-multiset", "docs/src/design/chiplets/hasher.md", "section not found")
        return
    defs = {}
    for b in decdocs.blocks(m.group(1)):
        c = decdocs.clean(b.replace("v'_b", "vXbn").replace("v'_c", "vXcn"))
        if c.count("=") == 1:
            lhs, rhs = [x.strip() for x in c.split("=")]
            defs[lhs] = rhs.rstrip("\\ ").strip()
    need = ["v_h", "v_a", "v_b", "v_c", "v_d", "vXall", "vXleaf", "vXabp", "vXres"]
    miss = [k for k in need if k not in defs]
    if miss:
        ctx.violation("doc-unparsed|hasher-multiset", "docs/src/design/chiplets/hasher.md", "formulas %s not found (have %s)" % (miss, sorted(defs)))
        return
    ch = A.CHP
    fid = builder_fn(F, "BusColumnBuilder", "get_responses_at")
    cases = [("f_bp", 0, (1, 0, 0), "vXall", L["LINEAR_HASH_LABEL"] + 16), ("f_mp", 0, (1, 0, 1), "vXleaf", L["MP_VERIFY_LABEL"] + 16),
             ("f_mv", 0, (1, 1, 0), "vXleaf", L["MR_UPDATE_OLD_LABEL"] + 16), ("f_mu", 0, (1, 1, 1), "vXleaf", L["MR_UPDATE_NEW_LABEL"] + 16),
             ("f_hout", 7, (0, 0, 0), "vXres", L["RETURN_HASH_LABEL"] + 32), ("f_sout", 7, (0, 0, 1), "vXall", L["RETURN_STATE_LABEL"] + 32),
             ("f_abp", 7, (1, 0, 0), "vXabp", L["LINEAR_HASH_LABEL"] + 32)]
    quiet = [("row 3 of a cycle", 3, (0, 0, 0)), ("row 0, selectors (0,0,0)", 0, (0, 0, 0)), ("row 7, selectors (1,0,1)", 7, (1, 0, 1)), ("row 7, selectors (1,1,0)", 7, (1, 1, 0))]
    for name, r8, sel, key, label in cases:
        for bit in ((0, 1) if key == "vXleaf" else (None,)):
            row = 8 + r8
            off = row - auxmodel.BASE
            fixed = {(ch, off): 0, (ch + 1, off): sel[0], (ch + 2, off): sel[1], (ch + 3, off): sel[2]}
            if bit is not None:
                fixed[(ch + 16, off)] = 6 + bit
            suf = lambda o: auxmodel.SUF[o] if o in auxmodel.SUF else "@%+d" % o
            cellv = lambda c, o: Poly.const(fixed[(c, o)]) if (c, o) in fixed else Poly.var(A.names[c] + suf(o))

            def var(nm, idx, primed, off=off, label=label, bit=bit):
                if nm == "alpha":
                    return Poly.var("alpha%d" % idx)
                if nm == "m" and idx is None:
                    return Poly.const(label)
                if nm == "clk":
                    return Poly.const(row)         # the hasher row address: docs' clk + 1 = row index + 1
                if nm == "i" and idx is None:
                    return cellv(ch + 16, off)
                if nm == "h" and idx is not None:
                    return cellv(ch + 4 + idx, off + (1 if primed else 0))
                if nm == "b" and idx is None:
                    return Poly.const(bit)
                if nm in ("vXbn", "vXcn"):
                    base = {"vXbn": "v_b", "vXcn": "v_c"}[nm]
                    return LatexParser(tokenize(decdocs.expand_sums(defs[base])), lambda n2, i2, p2: var(n2, i2, True) if n2 == "h" else var(n2, i2, p2), {}).expr()
                if nm == "v" and idx is None:
                    raise LatexError("bare v")
                k2 = nm if nm in defs else ("v_%s" % idx if False else None)
                if nm in defs:
                    return LatexParser(tokenize(defs[nm]), var, {}).expr()
                raise LatexError("unknown symbol %s_%s" % (nm, idx))
            # v_h, v_a ... are written v_h in the docs: after clean() they appear as names `v` with index letters; map through defs keys
            def var2(nm, idx, primed):
                return var(nm, idx, primed)
            try:
                # substitute sub-definitions textually: v_h -> (..), etc.
                def expand(t, depth=0):
                    for k in ("v_h", "v_a", "v_b", "v_c", "v_d"):
                        t = re.sub(r"(?<![A-Za-z])" + re.escape(k) + r"(?![A-Za-z0-9])", lambda m_, k=k: "(" + defs[k] + ")", t)
                    return t
                want = LatexParser(tokenize(expand(defs[key])), var2, {}).expr()
            except LatexError as e:
                ctx.violation("doc-unparsed|hasher-response|%s" % name, "docs/src/design/chiplets/hasher.md", str(e)[:200])
                continue
            k_ = "hasher-response|%s%s" % (name, "" if bit is None else "|bit=%d" % bit)
            ctx.inst(key=k_, nontrivial=True)
            res = [(g, v) for g, v in A.eval(fid, None, extra_fixed=fixed, row=row) if not isinstance(v, Exception)]
            ok = len(res) == 1 and isinstance(res[0][1], Poly) and res[0][1] == want
            ctx.oblig(ok)
            if not ok:
                ctx.violation(k_, F.fns[fid].loc(), "hasher row with flag %s%s: the bus response is %s; docs/src/design/chiplets/hasher.md gives %s"
                              % (name, "" if bit is None else " (index bit %d)" % bit, "; ".join(str(v)[:200] for g, v in res[:2]), str(want)[:200]))
    for name, r8, sel in quiet:
        row = 8 + r8
        off = row - auxmodel.BASE
        fixed = {(ch, off): 0, (ch + 1, off): sel[0], (ch + 2, off): sel[1], (ch + 3, off): sel[2]}
        ctx.inst(key="hasher-response|quiet|%s" % name, nontrivial=False)
        res = [(g, v) for g, v in A.eval(fid, None, extra_fixed=fixed, row=row) if not isinstance(v, Exception)]
        ok = len(res) == 1 and is_one(res[0][1])
        ctx.oblig(ok)
        if not ok:
            ctx.violation("hasher-response|spurious|%s" % name, F.fns[fid].loc(), "hasher %s: the bus response must be 1, got %s" % (name, [str(v)[:100] for g, v in res][:2]))


def r4h_sibling_table(ctx, F):
    """sibling table (chiplets virtual table): rows added while the old Merkle path is computed (f_mv, f_mva) and removed while
    the new one is computed (f_mu, f_mua) have the documented value v_sibling = alpha0 + alpha3*i + b*v_b + (1-b)*v_c"""
    A = auxmodel.AuxModel(F)
    ch = A.CHP
    txt = open("/repo/docs/src/design/chiplets/hasher.md").read()
    m = re.search(r"v_\{sibling\} = (.*?)\n", txt)
    if not m:
        ctx.violation("doc-anchor|v_sibling", "docs/src/design/chiplets/hasher.md", "formula v_sibling not found")
        return
    rhs = decdocs.clean(m.group(1))
    cases = [("f_mv", "get_responses_at", 8, (1, 1, 0), None), ("f_mu", "get_requests_at", 8, (1, 1, 1), None),
             ("f_mva", "get_responses_at", 16, (0, 0, 0), (1, 1, 0)), ("f_mua", "get_requests_at", 16, (0, 0, 0), (1, 1, 1))]
    for name, meth, row, sel, prev in cases:
        fid = builder_fn(F, "ChipletsVTableColBuilder", meth)
        other = builder_fn(F, "ChipletsVTableColBuilder", "get_requests_at" if meth == "get_responses_at" else "get_responses_at")
        for bit in (0, 1):
            off = row - auxmodel.BASE
            fixed = {(ch, off): 0, (ch + 1, off): sel[0], (ch + 2, off): sel[1], (ch + 3, off): sel[2]}
            idx_off = off
            if prev:
                fixed.update({(ch, off - 1): 0, (ch + 1, off - 1): prev[0], (ch + 2, off - 1): prev[1], (ch + 3, off - 1): prev[2]})
                idx_off = off - 1
            else:
                fixed.update({(ch, off - 1): 0, (ch + 1, off - 1): 0, (ch + 2, off - 1): 0, (ch + 3, off - 1): 0})
            fixed[(ch + 16, idx_off)] = 6 + bit
            suf = lambda o: auxmodel.SUF[o] if o in auxmodel.SUF else "@%+d" % o
            hcell = lambda j: Poly.var(A.names[ch + 4 + j] + suf(off))

            def var(nm, idx, primed):
                if nm == "alpha":
                    return Poly.var("alpha%d" % idx)
                if nm == "i" and idx is None:
                    return Poly.const(6 + bit)
                if nm == "b" and idx is None:
                    return Poly.const(bit)
                if nm == "v" and idx is None:
                    raise LatexError("bare v")
                raise LatexError("unknown symbol %s_%s" % (nm, idx))
            vb = Poly.const(0)
            vc = Poly.const(0)
            for j in range(4, 8):
                vb = vb + Poly.var("alpha%d" % (j + 4)) * hcell(j)
            for j in range(8, 12):
                vc = vc + Poly.var("alpha%d" % (j + 4)) * hcell(j)
            t = re.sub(r"(?<![A-Za-z])v_b(?![A-Za-z0-9])", "VB", rhs)
            t = re.sub(r"(?<![A-Za-z])v_c(?![A-Za-z0-9])", "VC", t)

            def var2(nm, idx, primed):
                if nm == "VB":
                    return vb
                if nm == "VC":
                    return vc
                return var(nm, idx, primed)
            key = "sibling|%s|bit=%d" % (name, bit)
            ctx.inst(key=key, nontrivial=True)
            try:
                want = LatexParser(tokenize(t), var2, {}).expr()
            except LatexError as e:
                ctx.violation("doc-unparsed|v_sibling", "docs/src/design/chiplets/hasher.md", str(e)[:200])
                return
            res = [(g, v) for g, v in A.eval(fid, None, extra_fixed=fixed, row=row) if not isinstance(v, Exception)]
            oth = [(g, v) for g, v in A.eval(other, None, extra_fixed=fixed, row=row) if not isinstance(v, Exception)]
            ok = bool(res) and all(isinstance(v, Poly) and v == want for g, v in res) and bool(oth) and all(is_one(v) for g, v in oth)
            ctx.oblig(ok)
            if not ok:
                ctx.violation(key, F.fns[fid].loc(), "sibling table, flag %s, index bit %d: %s gives %s and the opposite side %s; documented row: %s on this side only"
                              % (name, bit, meth, sorted({str(v)[:160] for g, v in res})[:2], sorted({str(v)[:60] for g, v in oth})[:2], str(want)[:160]))


def r4d_kernel_rom(ctx, F):
    """kernel ROM rows: the chiplets bus response and the kernel procedure table row (chiplets virtual table) have the forms of
    docs/src/design/chiplets/kernel_rom.md, each in its own column"""
    A = auxmodel.AuxModel(F)
    path = "/repo/docs/src/design/chiplets/kernel_rom.md"
    txt = open(path).read()
    forms = []
    for b in decdocs.blocks(txt):
        c = decdocs.clean(b.replace("\\Delta addr", "daddr").replace("chip\\_s", "chips"))
        if c.count("=") == 1:
            forms.append([x.strip() for x in c.split("=")])
    vdefs = [rhs for lhs, rhs in forms if lhs == "v"]
    bus = [rhs for lhs, rhs in forms if lhs.startswith("b'")]
    vt = [rhs for lhs, rhs in forms if lhs.startswith("vt")]
    ctx.floor("kernel-rom-doc-formulas", len(vdefs) + len(bus) + len(vt), 4)
    ch = A.CHP
    C = lambda pat: (lambda c: c["val"] if isinstance(c, dict) and "val" in c else c)(F.const(pat))
    label = C(r"chiplets::kernel_rom::KERNEL_PROC_LABEL$")
    label = label * R_INV % P if isinstance(label, int) and label > 2 ** 32 else label
    cell = lambda k, prime=False: Poly.var(A.names[ch + k] + ("'" if prime else ""))

    def mk(vtxt):
        def var(name, idx, primed):
            if name == "alpha":
                return Poly.var("alpha%d" % idx)
            if name == "opXkrom":
                return Poly.const(label)
            if name == "addr":
                return cell(5)
            if name == "daddr":
                return cell(5, True) - cell(5)
            if name == "r":
                return cell(6 + idx)
            if name == "s" and idx == 0:
                return cell(4)
            if name == "v":
                return LatexParser(tokenize(vtxt), var, {}).expr()
            if name in ("b", "vt", "bXchip", "vtXchip"):
                return Poly.const(1)
            raise LatexError("unknown symbol %s" % name)
        return var
    try:
        want_bus = LatexParser(tokenize(re.sub(r"^b_\{?chip\}?\s*\\cdot", "", bus[0]).strip()), mk(vdefs[0]), {}).expr()
        want_vt = LatexParser(tokenize(re.sub(r"^vt_\{?chip\}?\s*\\cdot", "", vt[0]).strip()), mk(vdefs[1]), {}).expr()
    except (LatexError, IndexError) as e:
        ctx.violation("doc-unparsed|kernel-rom", path.replace("/repo/", ""), str(e)[:200])
        return
    fixed = {(ch, 0): 1, (ch + 1, 0): 1, (ch + 2, 0): 1, (ch + 3, 0): 0}
    # --- bus: s0 * v + 1 - s0, whatever follows
    fid = builder_fn(F, "BusColumnBuilder", "get_responses_at")
    for nxt_name, nxt in (("kernel row follows", {(ch, 1): 1, (ch + 1, 1): 1, (ch + 2, 1): 1, (ch + 3, 1): 0}), ("padding follows", {(ch, 1): 1, (ch + 1, 1): 1, (ch + 2, 1): 1, (ch + 3, 1): 1})):
        fx = dict(fixed)
        fx.update(nxt)
        res = [(g, v) for g, v in A.eval(fid, None, extra_fixed=fx) if not isinstance(v, Exception)]
        ctx.inst(key="kernel-row|bus|%s" % nxt_name, nontrivial=True)
        ok = len(res) == 1 and not res[0][0] and res[0][1] == want_bus
        ctx.oblig(ok)
        if not ok:
            ctx.violation("kernel-row|BusColumnBuilder", F.fns[fid].loc(), "on a kernel ROM row (%s) the chiplets bus response is %s; docs/src/design/chiplets/kernel_rom.md gives %s"
                          % (nxt_name, "; ".join(str(v)[:160] for g, v in res[:2]), str(want_bus)[:200]))
    # --- kernel procedure table (chiplets virtual table): v' exactly when the address changes in the next kernel row (docs: delta_addr in {0, 1}),
    #     and for the last kernel row (docs' boundary paragraph: the table ends at the product over ALL unique procedures)
    vrow = cell(5) * Poly.var("alpha1") + Poly.var("alpha0")
    for k in range(4):
        vrow = vrow + cell(6 + k) * Poly.var("alpha%d" % (2 + k))
    fid = builder_fn(F, "ChipletsVTableColBuilder", "get_responses_at")
    for nxt_name, nxt in (("kernel row follows", {(ch, 1): 1, (ch + 1, 1): 1, (ch + 2, 1): 1, (ch + 3, 1): 0}), ("padding follows", {(ch, 1): 1, (ch + 1, 1): 1, (ch + 2, 1): 1, (ch + 3, 1): 1})):
        fx = dict(fixed)
        fx.update(nxt)
        res = [(g, v) for g, v in A.eval(fid, None, extra_fixed=fx) if not isinstance(v, Exception)]
        ctx.inst(key="kernel-row|vtable|%s" % nxt_name, nontrivial=True)
        bad = []
        cols = sorted({A.names.get(c, c) for c, r in A.touched if isinstance(c, int) and c < ch and not str(A.names.get(c, "")).startswith("bit")})
        for g, v in res:
            conds = [(c, truth(t)) for c, t, l in g]
            if nxt_name == "padding follows":
                want = vrow
            else:
                chg = None
                for c, t in conds:
                    if isinstance(c, Term) and c.op in ("ne", "eq") and {repr(c.args[0]), repr(c.args[1])} == {repr(cell(5)), repr(cell(5, True))}:
                        chg = t if c.op == "ne" else (not t)
                want = vrow if chg else one() if chg is not None else None
            if want is None or not (isinstance(v, Poly) and v == want):
                bad.append((conds, v, want))
        ok = bool(res) and not bad and not cols
        ctx.oblig(ok)
        if not ok:
            ctx.violation("kernel-row|ChipletsVTableColBuilder", F.fns[fid].loc(), "on a kernel ROM row (%s) the kernel procedure table factor is %s; expected v' = %s exactly when the kernel ROM address changes (docs/src/design/chiplets/kernel_rom.md) or the kernel ROM section ends%s"
                          % (nxt_name, "; ".join("%s -> %s" % ([(str(c), t) for c, t in cs], str(v)[:120]) for cs, v, w in bad[:2]) or "undetermined", str(vrow)[:120], ("; the builder reads non-chiplet columns %s" % cols) if cols else ""))


def run(ctx, F):
    ctx.trusted += ["rustc MIR via mirfacts", "mirsym; the auxiliary-column model (vlib/auxmodel.py: symbolic main trace, MainTrace accessors interpreted from source)",
                    "operation model (vlib/procmodel.py) for the values handlers write", "docs/src/design/decoder/constraints.md and stack/main.md as oracle for virtual-table rows"]
    ctx.assumptions += ["balance of the running products on concrete traces is not decided; decided is that each request equals the product of the responses of the rows it causes (memory, bitwise), "
                        "that virtual-table rows have the documented form on both sides, and that every row-producing operation requests",
                        "hasher request/response tuples are checked for arity only"]
    ctx.run_rule("C12-R1", "every operation that makes a chiplet record rows has a bus request and no other operation has one", r1_requesters, F)
    ctx.run_rule("C12-R2", "number of request factors = number of bus-visible rows the handler records (memory, bitwise) / documented hasher lookups", r2_arity, F)
    ctx.run_rule("C12-R3", "memory and bitwise requests equal, symbolically, the product of the chiplet responses of the rows the handler records; labels agree", r3_memory_bitwise, F)
    ctx.run_rule("C12-R5", "RangeChecker::add_range_checks counts every value once and records all values of a row, also when the row already has lookups", r5_range_conservation, F)
    ctx.run_rule("C12-R4a", "virtual-table rows (block stack, block hash, op group, stack overflow) equal the documented rows for every operation; CALL/SYSCALL rows agree between insertion and removal", r4a_decoder_tables, F)
    ctx.run_rule("C12-R4d", "kernel ROM rows: bus response and kernel procedure table row have the documented forms, each in its own column", r4d_kernel_rom, F)
    ctx.run_rule("C12-R4e", "HPERM / MPVERIFY / MRUPDATE bus requests equal the products of the documented input/output values with cycle-aligned labels", r4e_hasher_requests, F)
    ctx.run_rule("C12-R4g", "control-block bus requests (JOIN, SPLIT, LOOP, DYN, CALL, SYSCALL, SPAN, END) equal the documented values for cycle-aligned block addresses", r4g_control_requests, F)
    ctx.run_rule("C12-R4f", "hasher chiplet rows: bus responses have the documented form for each of the 7 transition flags and are 1 elsewhere", r4f_hasher_responses, F)
    ctx.run_rule("C12-R4h", "sibling table rows (f_mv, f_mva added; f_mu, f_mua removed) equal the documented v_sibling for both index bits", r4h_sibling_table, F)
    ctx.run_rule("C12-R4b", "every block-stack push/pop has an insertion/removal; every executor that runs child blocks inserts them into the block hash table", r4b_who_inserts, F)
    ctx.run_rule("C12-R4c", "MainTrace::is_left_shift / is_right_shift agree with each operation's stack effect", r4c_shift_predicates, F)

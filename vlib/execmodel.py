"""Path model of the block executors (Process::execute_{join,split,loop,call,dyn}_block): the executor's MIR is interpreted
with the methods it orchestrates replaced by event recorders, and every value it branches on (the element returned by
start_split_block / start_loop_block and by Stack::peek) replaced by a fresh symbol. Each syntactic path yields

    events   [("start", kind, result symbol) | ("child", accessor) | ("repeat",) | ("op", variant) | ("end", kind, args) |
              ("peek", symbol) | ("kernel",) | ("dyn",)]
    guards   the branch conditions taken (terms over the symbols)
    outcome  ("ok",) | ("err", variant, payload) | ("truncated",) when the unrolling bound of the `while` loop is reached

Rules classify each symbol on each path by evaluating the guards at 1, 0 and a few other field elements, so the verdict does
not depend on how the comparison is written (== ONE, match on as_int(), != ZERO ...)."""
import re
from .mirsym import Interp, Poly, Term, Agg, Ptr, Opaque, enumerate_paths, Unanalysable, PanicReached, deref, FELT_REGISTRY
from . import procmodel

P_ = 2 ** 64 - 2 ** 32 + 1
OTHERS = (2, 3, 2 ** 32, P_ - 1)


class Truncated(Unanalysable):
    pass


def ev(x, env):
    """concrete value of a term under env (variable -> int); None when it mentions anything else"""
    if isinstance(x, bool):
        return int(x)
    if isinstance(x, int):
        return x
    if isinstance(x, Poly):
        tot = 0
        for m, c in x.t.items():
            v = c
            for var, e in m:
                if var in env:
                    val = env[var]
                elif var in FELT_REGISTRY:
                    val = ev(FELT_REGISTRY[var], env)
                    if val is not None:
                        val %= P_
                else:
                    val = None
                if val is None:
                    return None
                v = v * pow(val, e, P_) % P_
            tot = (tot + v) % P_
        return tot
    if isinstance(x, Term):
        if not x.args:
            return env.get(x.op)
        a = [ev(y, env) for y in x.args]
        if any(v is None for v in a):
            return None
        op = x.op
        if op in ("as_int", "as_u64", "as_usize"):
            return a[0] % 2 ** 64
        if op == "as_u32":
            return a[0] % 2 ** 32
        if op == "as_u16":
            return a[0] % 2 ** 16
        if op == "as_u8":
            return a[0] % 2 ** 8
        if len(a) == 1:
            if op == "not":
                return int(not a[0])
            return None
        if op == "&":
            return a[0] & a[1]
        if op == "|":
            return a[0] | a[1]
        if op == ">>":
            return a[0] >> a[1]
        if op == "<<":
            return (a[0] << a[1]) % 2 ** 64
        if op == "eq" or op == "==":
            return int(a[0] == a[1])
        if op == "ne" or op == "!=":
            return int(a[0] != a[1])
        if op == "<=":
            return int(a[0] <= a[1])
        if op == "<":
            return int(a[0] < a[1])
        if op == ">=":
            return int(a[0] >= a[1])
        if op == ">":
            return int(a[0] > a[1])
        if op == "wrapping_sub":
            return (a[0] - a[1]) % 2 ** 64
        if op == "/":
            return a[0] // a[1] if a[1] else None
        if op == "+":
            return a[0] + a[1]
        if op == "-":
            return a[0] - a[1]
        if op == "*":
            return a[0] * a[1]
    return None


def guard_holds(cond, val, env):
    """True / False when the recorded decision (cond took `val`) is consistent with env, None when undetermined"""
    v = ev(cond, env)
    if v is None:
        return None
    if isinstance(val, tuple):          # ('not', [k, ...]): the otherwise arm of a switch
        return v not in val[1]
    return v == int(val)


def guard_holds_with(evf, cond, val, env):
    """guard_holds with a caller-supplied evaluator (rules that introduce their own terms)"""
    v = evf(cond, env)
    if v is None:
        return None
    if isinstance(val, tuple):
        return v not in val[1]
    return v == int(val)


def consistent(guards, env):
    """False when some recorded decision contradicts env; guards env does not determine are ignored"""
    for c, val, loc in guards:
        if guard_holds(c, val, env) is False:
            return False
    return True


def admitted(guards, sym, values=(1, 0) + OTHERS):
    """the subset of `values` the symbol may take on a path with these guards (guards not mentioning only sym are ignored)"""
    out = []
    for v in values:
        ok = True
        for c, val, loc in guards:
            h = guard_holds(c, val, {sym: v})
            if h is False:
                ok = False
                break
        if ok:
            out.append(v)
    return out


def executor_paths(F, kind, unroll=2, max_paths=256):
    fn = F.fn(r"^miden_processor::Process::execute_%s_block$" % kind)
    holder = {}

    def make():
        I = Interp(F)
        I.havoc = True
        procmodel.install_field(I)
        st = {"n": 0, "peeks": 0}
        holder["st"] = st
        ev_ = I.effects
        ok = lambda v: Agg([v], "adt", "core::result::Result", "Ok")
        unit = lambda: Agg([], "tuple")

        def fresh(base):
            st["n"] += 1
            return Poly.var("%s#%d" % (base, st["n"]))

        def add(rx, m):
            I.overrides.insert(0, (re.compile(rx), m))

        def start(I_, a, f):
            name = re.search(r"start_(\w+)_block$", f.id).group(1)
            v = fresh("cond") if name in ("split", "loop") else None
            ev_.append(("start", name, v))
            return ok(v if v is not None else unit())
        add(r"^miden_processor::(\w+::)*Process::start_\w+_block$", start)

        def end(I_, a, f):
            name = re.search(r"end_(\w+)_block$", f.id).group(1)
            ev_.append(("end", name, tuple(x for x in a[2:] if isinstance(x, (bool, int)))))
            return ok(unit())
        add(r"^miden_processor::(\w+::)*Process::end_\w+_block$", end)

        def child(I_, a, f):
            b = deref(a[1])
            ev_.append(("child", getattr(b, "name", repr(b))))
            return ok(unit())
        add(r"^miden_processor::Process::execute_code_block$", child)

        def dyn(I_, a, f):
            ev_.append(("dyn",))
            return ok(unit())
        if kind != "dyn":
            add(r"^miden_processor::Process::execute_dyn_block$", dyn)

        def op(I_, a, f):
            o = a[1]
            ev_.append(("op", o.variant if isinstance(o, Agg) else repr(o)))
            return ok(unit())
        add(r"^miden_processor::(\w+::)*Process::execute_op$", op)
        add(r"^miden_processor::decoder::Decoder::repeat$", lambda I_, a, f: (ev_.append(("repeat",)), unit())[1])

        def peek(I_, a, f):
            # two peeks with no state-changing call in between read the same element
            last = st.get("last_peek")
            if last is not None and last[1] == len([e for e in ev_ if e[0] != "peek"]):
                return last[0]
            st["peeks"] += 1
            if st["peeks"] > unroll + 1:
                raise Truncated("unrolling bound")
            v = fresh("peek")
            ev_.append(("peek", v))
            st["last_peek"] = (v, len([e for e in ev_ if e[0] != "peek"]))
            return v
        add(r"^miden_processor::stack::Stack::peek$", peek)
        add(r"^miden_processor::chiplets::Chiplets::access_kernel_proc$", lambda I_, a, f: (ev_.append(("kernel",)), ok(unit()))[1])
        add(r"^miden_core::program::blocks::\w+::\w+::(on_true|on_false|first|second|body)$", lambda I_, a, f: Ptr([Opaque(f.id.rsplit("::", 1)[-1])], 0))
        add(r"^miden_core::program::blocks::call_block::Call::is_syscall$", lambda I_, a, f: Term("is_syscall"))
        add(r"^miden_core::program::blocks::call_block::Call::fn_hash$", lambda I_, a, f: Agg([Poly.var("fn_hash%d" % i) for i in range(4)], "array"))
        add(r"^miden_core::program::blocks::dyn_block::Dyn::dyn_hash$", lambda I_, a, f: Agg([Poly.var("dyn_hash%d" % i) for i in range(4)], "array"))
        add(r"^miden_core::program::blocks::dyn_block::Dyn::new$", lambda I_, a, f: Opaque("Dyn"))

        def table_get(I_, a, f):
            key = a[1]
            tag = "callee" if "fn_hash" in repr(key) else ("dyn_target" if "dynw" in repr(key) else "table-entry")
            c = I_.fork.choose(("cb_table", len(ev_)), 2, Term("cb_table_has", repr(key))) if I_.fork else 0
            I_.path.append((Term("cb_table_has", tag), 1 if c == 0 else 0, "cb_table"))
            if c == 0:
                return Agg([Ptr([Opaque(tag)], 0)], "adt", "core::option::Option", "Some")
            return Agg([], "adt", "core::option::Option", "None")
        add(r"^miden_core::program::CodeBlockTable::get$", table_get)
        add(r"^miden_processor::stack::Stack::get_word$", lambda I_, a, f: Agg([Poly.var("dynw%d" % i) for i in range(4)], "array"))
        add(r"Digest@(core::convert::)?From<\[.*\]>::from$|\[.*\]@(core::convert::)?Into<.*Digest>::into$", lambda I_, a, f: a[0])
        return I

    def run(I):
        proc = Opaque("Process")
        comps = {}
        proc.field = lambda name: comps.setdefault(name, Opaque(name))
        args = [Ptr([proc], 0), Ptr([Opaque("block")], 0), Ptr([Opaque("cb_table")], 0)]
        return I.call(fn.id, args[:fn.d.get("argc", 3)])

    out = []
    for I, res, exc in enumerate_paths(make, run, max_paths=max_paths):
        d = {"events": list(I.effects), "guards": list(I.path)}
        if isinstance(exc, Truncated):
            d["outcome"] = ("truncated",)
        elif exc is not None:
            d["outcome"] = ("panic" if isinstance(exc, PanicReached) else "unanalysable", str(exc))
        elif isinstance(res, Agg) and res.variant == "Err":
            e = res.items[0]
            d["outcome"] = ("err", e.variant if isinstance(e, Agg) else repr(e), e.items if isinstance(e, Agg) else None)
        else:
            d["outcome"] = ("ok",)
        out.append(d)
    return fn, out


# ---- skeleton interpretation of orchestrating methods ---------------------------------------------------------------------

class Havoc(Opaque):
    """an unknown value whose fields are unknown values too"""
    def __init__(self, name):
        Opaque.__init__(self, name)
        self.field = lambda f: Havoc("%s.%s" % (name, f))
        self.sym_at = lambda idx: Ptr([Havoc("%s[]" % name)], 0)
        self._items = None

    def as_list(self):
        """an unknown collection is represented by one unknown element (the loop body / per-element call is seen once)"""
        if self._items is None:
            self._items = [Havoc("%s[]" % self.name)]
        return self._items


def havoc_return(F, f, name):
    """an unknown value of the callee's return type: Result -> Ok(unknown), tuple -> tuple of unknowns, bool -> a term"""
    g = F.fns.get(getattr(f, "xid", None)) or F.fns.get(f.id)
    ty = g.d["locals"][0] if g is not None and g.d.get("locals") else ""
    if g is None:
        # byte reader / writer primitives of winter-utils
        m = re.search(r"::read_(u8|u16|u32|u64|usize|bool)$", f.id)
        if m:
            ty = "core::result::Result<%s, DeserializationError>" % m.group(1)
        elif re.search(r"::read_(vec|array|many|u8_vec)$|::read_from$|::read$", f.id):
            ty = "core::result::Result<?, DeserializationError>"
        elif re.search(r"::write_\w+$|::write_into$|::write$", f.id):
            ty = "()"
    return havoc_of_type(ty, name)


def havoc_args(fn, F=None):
    """unknown arguments of the types fn declares (structs of the workspace get typed fields when F is given)"""
    return [havoc_of_type(fn.d["locals"][i], "arg%d" % i, F) for i in range(1, fn.d["argc"] + 1)]


def havoc_of_type(ty, name, F=None, depth=0):
    def struct(ty, nm):
        if F is None or depth > 3:
            return None
        base = ty.split("<")[0]
        cands = [a for a in F.adts if a == base or a.endswith("::" + base)]
        if len(cands) != 1:
            return None
        adt = F.adts[cands[0]]
        if len(adt["variants"]) != 1 or adt.get("kind") == "enum":
            return None
        v = adt["variants"][0]
        return Agg([havoc_of_type(fd["ty"], "%s.%s" % (nm, fd["name"]), F, depth + 1) for fd in v["fields"]], "adt", adt["id"], v["name"])

    def mk(ty, nm):
        ty = ty.strip()
        if re.match(r"^(std|core)::result::Result<", ty):
            inner = ty[ty.index("<") + 1:]
            return Agg([mk(split_top(inner)[0], nm)], "adt", "core::result::Result", "Ok")
        if ty == "()":
            return Agg([], "tuple")
        if re.match(r"^(std|core)::option::Option<", ty):
            inner = ty[ty.index("<") + 1:]
            return Agg([mk(split_top(inner)[0], nm)], "adt", "core::option::Option", "Some")
        if ty.startswith("&"):
            return Ptr([mk(re.sub(r"^&(mut )?('\w+ )?", "", ty), nm)], 0)
        if ty.startswith("(") and ty.endswith(")"):
            return Agg([mk(t, "%s.%d" % (nm, i)) for i, t in enumerate(split_top(ty[1:-1]))], "tuple")
        if ty == "bool":
            return Term(nm)
        if ty.endswith("Felt") or ty.endswith("BaseElement"):
            return Poly.var(nm)
        if re.match(r"^\[.*; 4\]$", ty) and ("Felt" in ty or "BaseElement" in ty):
            return Agg([Poly.var("%s%d" % (nm, i)) for i in range(4)], "array")
        if ty in ("usize", "u64", "u32", "u16", "u8"):
            return Term(nm)
        st = struct(ty, nm)
        if st is not None:
            return st
        return Havoc(nm)
    return mk(ty, name)


def split_top(s):
    out, depth, cur = [], 0, ""
    for ch in s:
        if ch in "<([":
            depth += 1
        elif ch in ">)]":
            depth -= 1
            if depth < 0:
                break
        if ch == "," and depth == 0:
            out.append(cur)
            cur = ""
        else:
            cur += ch
    if cur.strip():
        out.append(cur)
    return [x.strip() for x in out]


def skeleton_paths(F, fn, inline_pat, record_pat, args, max_paths=128, workspace=r"^(miden_|winter_)"):
    """interpret fn; callees matching inline_pat are interpreted too, callees matching record_pat are recorded as events
    (name, arguments) and return an unknown of their return type, every other workspace callee returns an unknown"""
    inl, recp, ws = re.compile(inline_pat), re.compile(record_pat), re.compile(workspace)
    holder = {}

    def make():
        I = Interp(F)
        I.havoc = True
        I.sym_ranges = True
        procmodel.install_field(I)
        n = [0]

        def generic(I_, a, f):
            n[0] += 1
            if recp.search(f.id):
                parts = f.id.split("::")
                owner = re.sub(r"@.*$", "", parts[-2]) if len(parts) > 1 else ""
                I_.effects.append((parts[-1], tuple(a[1:]), owner))
            return havoc_return(F, f, "%s#%d" % (f.id.rsplit("::", 1)[-1], n[0]))

        class Matcher:
            def search(self, sid):
                if inl.search(sid):
                    return None
                if recp.search(sid) or (ws.search(sid) and "{closure" not in sid and "@" not in sid.split("::")[-2:][0] and not sid.endswith("::{constructor#0}")):
                    return True
                return None
        I.overrides.insert(0, (Matcher(), generic))
        return I

    def run(I):
        return I.call(fn.id, args())

    out = []
    for I, res, exc in enumerate_paths(make, run, max_paths=max_paths):
        d = {"events": list(I.effects), "guards": list(I.path)}
        if exc is not None:
            d["outcome"] = ("panic" if isinstance(exc, PanicReached) else "unanalysable", str(exc))
        elif isinstance(res, Agg) and res.variant == "Err":
            d["outcome"] = ("err",)
        else:
            d["outcome"] = ("ok",)
        out.append(d)
    return out

"""C05 — instruction semantics match the instruction reference on every stack state.
Lowerings are extracted by abstract interpretation of Assembler::compile_instruction for all Instruction variants;
each lowering is composed with the operation model on a symbolic stack (16 visible + 16 deeper cells) and the
result compared with the reference tables parsed from docs/src/user_docs/assembly (and family formulas)."""
import re
from .mirutil import *
from .mirsym import Poly, Term, P, path_feasible
from . import lowering, procmodel, userdocs, opmodel

from . import u32ref, execmodel

LEVEL = "other"
PROC_VARIANTS = {"ExecLocal", "ExecImported", "CallLocal", "CallMastRoot", "CallImported", "SysCall", "DynExec", "DynCall", "ProcRefLocal", "ProcRefImported"}
E = lambda i: Poly.var("e%d" % i)
ND = 32


def base_stack():
    return [E(i) for i in range(ND)]


def family_expected(name):
    """expected final symbolic stack for the data-movement instructions (formulas of docs/user_docs/assembly/
    stack_manipulation.md, parameterised by the number in the variant name); None if not a data-movement variant"""
    s = base_stack()
    m = re.match(r"^(.*?)(\d+)?$", name)
    fam, n = m.group(1), (int(m.group(2)) if m.group(2) else None)
    if name == "Drop":
        return {"ok": s[1:]}
    if name == "DropW":
        return {"ok": s[4:]}
    if name == "PadW":
        return {"ok": [Poly.const(0)] * 4 + s}
    if fam == "Dup" and n is not None:
        return {"ok": [s[n]] + s}
    if fam == "DupW" and n is not None:
        return {"ok": s[4 * n:4 * n + 4] + s}
    if fam == "Swap" and n is not None:
        t = list(s); t[0], t[n] = s[n], s[0]
        return {"ok": t}
    if fam == "SwapW" and n is not None:
        t = list(s); t[0:4], t[4 * n:4 * n + 4] = s[4 * n:4 * n + 4], s[0:4]
        return {"ok": t}
    if name == "SwapDw":
        return {"ok": s[8:16] + s[0:8] + s[16:]}
    if fam == "MovUp" and n is not None:
        return {"ok": [s[n]] + s[:n] + s[n + 1:]}
    if fam == "MovUpW" and n is not None:
        return {"ok": s[4 * n:4 * n + 4] + s[:4 * n] + s[4 * n + 4:]}
    if fam == "MovDn" and n is not None:
        return {"ok": s[1:n + 1] + [s[0]] + s[n + 1:]}
    if fam == "MovDnW" and n is not None:
        return {"ok": s[4:4 * n + 4] + s[0:4] + s[4 * n + 4:]}
    if name == "CSwap":
        return {0: [s[1], s[2]] + s[3:], 1: [s[2], s[1]] + s[3:], "cond": s[0]}
    if name == "CSwapW":
        return {0: s[1:5] + s[5:9] + s[9:], 1: s[5:9] + s[1:5] + s[9:], "cond": s[0]}
    if name == "CDrop":
        return {0: [s[2]] + s[3:], 1: [s[1]] + s[3:], "cond": s[0]}
    if name == "CDropW":
        return {0: s[5:9] + s[9:], 1: s[1:5] + s[9:], "cond": s[0]}
    return None


class Composer:
    def __init__(self, F):
        self.F = F
        self.L = lowering.lower_all(F)
        self.cache = {}

    def results(self, variant):
        """list of (lowering path, composed feasible results) for ok lowering paths"""
        if variant in self.cache:
            return self.cache[variant]
        out = []
        for lp in self.L[variant].paths:
            if lp["outcome"] != "ok":
                continue
            if any(o[0] == "*many" for o in lp["ops"]):
                out.append((lp, None))
                continue
            if not path_feasible(lp["guards"]):
                continue
            try:
                rs = procmodel.run_sequence(self.F, lp["ops"], max_paths=400)
            except Exception as e:
                out.append((lp, e))
                continue
            out.append((lp, [r for r in rs if path_feasible(lp["guards"] + r["guards"])]))
        self.cache[variant] = out
        return out


def guard_value(guards, x):
    """value of as_int(x) / truth of eq(x, c) fixed by the guards of a path, for conditional instructions"""
    for cond, val, loc in guards:
        if isinstance(cond, Term) and cond.op == "as_int" and cond.args and cond.args[0] == x and isinstance(val, int):
            return val
    return None


def r0_lowering_coverage(ctx, C):
    n = 0
    for v, L in sorted(C.L.items()):
        if v in PROC_VARIANTS:
            continue
        n += 1
        bad = [p for p in L.paths if not isinstance(p["outcome"], str) and p["outcome"][0] in ("unanalysable", "unknown")]
        ctx.inst(key=v, nontrivial=len(L.paths) > 1)
        if bad:
            ctx.violation("UNANALYSABLE|%s" % v, "assembly/src/assembler/instruction", "lowering of %s cannot be extracted: %s" % (v, bad[0]["outcome"][1][:200]))
        if not any(p["outcome"] == "ok" for p in L.paths) and not bad:
            ctx.violation("no-ok-lowering|%s" % v, "assembly/src/assembler/instruction", "no successful lowering path for %s" % v)
    ctx.floor("instruction-variants", n, 215)
    ctx.sample({"variant": "AddImm", "paths": [(p["outcome"], [o[0] for o in p["ops"]], [(str(g[0]), g[1]) for g in p["guards"]]) for p in C.L["AddImm"].paths]})


def r1_data_movement(ctx, C):
    n = 0
    for v in sorted(C.L):
        exp = family_expected(v)
        if exp is None:
            continue
        n += 1
        for lp, rs in C.results(v):
            if rs is None or isinstance(rs, Exception):
                ctx.violation("UNANALYSABLE|%s" % v, "assembly/src/assembler/instruction", "cannot compose lowering of %s: %s" % (v, rs))
                continue
            seen = set()
            for r in rs:
                ctx.inst(key="%s#%d" % (v, len(seen)), nontrivial=True)
                if r["outcome"][0] == "err":
                    if "ok" in exp:
                        ctx.oblig(False)
                        ctx.violation("unexpected-failure|%s" % v, "assembly/src/assembler/instruction", "%s can fail with %s under %s" % (v, r["outcome"], [(str(g[0]), g[1]) for g in r["guards"]]))
                    else:
                        # conditional instruction: failure only for a non-binary condition
                        cv = guard_value(r["guards"], exp["cond"])
                        ctx.oblig(cv is None)
                        if cv in (0, 1):
                            ctx.violation("fails-on-binary|%s" % v, "processor/src/operations/stack_ops.rs", "%s fails although the condition is %d" % (v, cv))
                        seen.add("err")
                    continue
                if r["outcome"][0] != "ok":
                    continue
                if "ok" in exp:
                    want = exp["ok"]
                else:
                    cv = guard_value(r["guards"], exp["cond"])
                    if cv not in (0, 1):
                        ctx.violation("condition-not-binary|%s" % v, "processor/src/operations/stack_ops.rs", "%s succeeds on a path where the condition is not fixed to 0 or 1 (guards %s)" % (v, [(str(g[0]), g[1]) for g in r["guards"]]))
                        continue
                    want = exp[cv]
                    seen.add(cv)
                got = r["stack"]
                k = min(len(got), len(want), 28)
                ok = all(got[i] == want[i] for i in range(k))
                ctx.oblig(ok)
                if not ok:
                    bad = [i for i in range(k) if got[i] != want[i]]
                    ctx.violation("stack-transition|%s" % v, "assembly/src/assembler/instruction",
                                  "%s lowers to %s; composed on a symbolic stack it leaves position(s) %s = %s, the instruction reference requires %s"
                                  % (v, [o[0] for o in lp["ops"]], bad[:6], [str(got[i]) for i in bad[:6]], [str(want[i]) for i in bad[:6]]))
            if "cond" in exp and not ({0, 1, "err"} <= seen):
                ctx.violation("conditional-cases|%s" % v, "processor/src/operations/stack_ops.rs", "%s must have paths for condition 0, 1 and a failing path for other values; found %s" % (v, sorted(map(str, seen))))
        if len(ctx.samples) < 5:
            ctx.sample({"variant": v, "ops": [o[0] for o in C.L[v].paths[0]["ops"]], "expected_top": [str(x) for x in (exp.get("ok") or exp[1])[:6]]})
    ctx.floor("data-movement-variants", n, 78)


def slots(tokens):
    """['b','a','...'] -> list of (name, slot index or None) top-first; uppercase single letters are words"""
    out = []
    for t in tokens:
        if t == "...":
            out.append(("...", None))
        elif re.match(r"^[A-Z]'?$", t):
            out += [("%s%d" % (t, i), None) for i in range(4)]
        else:
            out.append((t, None))
    return out


def r2_reference_tables(ctx, C):
    F = C.F
    adt = F.adt(r"^miden_assembly::ast::nodes::Instruction$")
    idx = userdocs.variant_index(adt["variants"])
    rows = userdocs.rows()
    ctx.floor("reference-rows", len(rows), 90)
    checked = formulas_checked = 0
    for row in rows:
        if not row.inp or row.inp[0] is None or not row.out or row.out[0] is None:
            continue
        inp, outp = slots(row.inp[0]), slots(row.out[0])
        # only plain patterns: names then '...'
        if [n for n, _ in inp].count("...") != 1 or inp[-1][0] != "..." or [n for n, _ in outp].count("...") != 1 or outp[-1][0] != "...":
            continue
        in_names = [n for n, _ in inp[:-1]]
        out_names = [n for n, _ in outp[:-1]]
        if len(set(in_names)) != len(in_names):
            continue
        env = {n: E(i) for i, n in enumerate(in_names)}

        def var(name, idx_, env=env):
            key = name if idx_ is None else "%s%d" % (name.upper(), idx_)
            if key in env:
                return env[key]
            raise userdocs.docspec.LatexError("unknown name %s" % key)
        forms = userdocs.formulas(row.notes, var)
        for form in row.forms:
            k, imm = userdocs.form_key(form)
            variant = idx.get(k + ("imm" if imm else "")) or (None if imm else idx.get(k))
            if variant is None or variant in PROC_VARIANTS or family_expected(variant) is not None:
                continue
            # immediate forms: the operand named by the immediate is the top input
            shift = 0
            env2 = dict(env)
            if imm:
                pname = re.search(r"\.\*?(\w+)\*?$", form.replace("`", "")).group(1)
                if pname not in in_names or in_names.index(pname) != 0:
                    continue
                env2 = {n: E(i - 1) for i, n in enumerate(in_names) if i > 0}
                env2[pname] = Poly.var("imm")
                shift = 1
            n_in = len(in_names) - shift
            want = []
            for nm in out_names:
                if nm in forms:
                    # re-evaluate formula under env2
                    def var2(name, idx_, e=env2):
                        key = name if idx_ is None else "%s%d" % (name.upper(), idx_)
                        if key in e:
                            return e[key]
                        raise userdocs.docspec.LatexError("unknown name")
                    try:
                        want.append(userdocs.formulas(row.notes, var2).get(nm))
                    except Exception:
                        want.append(None)
                elif nm in env2:
                    want.append(env2[nm])
                elif re.match(r"^\d+$", nm):
                    want.append(Poly.const(int(nm)))
                else:
                    want.append(None)
            n_out = len(out_names)
            for lp, rs in C.results(variant):
                if rs is None or isinstance(rs, Exception):
                    continue
                for r in rs:
                    if r["outcome"][0] != "ok":
                        continue
                    checked += 1
                    got = r["stack"]
                    key = "%s|%s" % (variant, form)
                    ctx.inst(key=key, nontrivial=any(w is not None and nm not in env2 for w, nm in zip(want, out_names)))
                    # frame: everything below the documented inputs is untouched, at the documented depth
                    bad_rest = [j for j in range(0, 12) if got[n_out + j] != E(n_in + j)]
                    ctx.oblig(not bad_rest)
                    if bad_rest:
                        ctx.violation("arity-frame|%s" % variant, "%s:%d" % (row.file, row.line),
                                      "%s: the reference says %s -> %s (net depth change %+d) but after the lowering %s the cell %d below the outputs holds %s instead of %s"
                                      % (form, row.inp[0], row.out[0], n_out - n_in, [o[0] for o in lp["ops"]][:12], bad_rest[0], got[n_out + bad_rest[0]], E(n_in + bad_rest[0])))
                        break
                    for pos, (w, nm) in enumerate(zip(want, out_names)):
                        if w is None:
                            continue
                        if nm in forms:
                            formulas_checked += 1
                        g = got[pos]
                        g2 = subst_guard_eqs(g, lp["guards"] + r["guards"])
                        w2 = subst_guard_eqs(w, lp["guards"] + r["guards"])
                        ok = isinstance(g2, Poly) and g2 == w2
                        ctx.oblig(ok)
                        if not ok:
                            ctx.violation("result|%s|%s" % (variant, nm), "%s:%d" % (row.file, row.line),
                                          "%s: output %s should be %s per the reference, the composed lowering %s yields %s (path guards %s)"
                                          % (form, nm, w, [o[0] for o in lp["ops"]][:12], g, [(str(x[0]), x[1]) for x in (lp["guards"] + r["guards"])][:6]))
    ctx.extra["composed_paths_checked"] = checked
    ctx.extra["formula_outputs_checked"] = formulas_checked
    ctx.floor("composed-paths", checked, 150)
    ctx.floor("formula-outputs", formulas_checked, 15)


def subst_guard_eqs(p, guards):
    """apply x = c facts from eq/ne guards over immediates/stack cells (constant propagation)"""
    if not isinstance(p, Poly):
        return p
    env = {}
    for cond, val, loc in guards:
        if isinstance(cond, Term) and cond.op in ("eq", "ne") and len(cond.args) == 2 and isinstance(cond.args[0], Poly) and isinstance(cond.args[1], Poly):
            truth = (val != 0) if not isinstance(val, tuple) else True
            if (cond.op == "eq") == truth:
                d = cond.args[0] - cond.args[1]
                if len(d.vars()) == 1 and d.degree() == 1:
                    v = next(iter(d.vars()))
                    a = d.coeff_of(v, 1).const_value()
                    b = d.without(v).const_value() or 0
                    env[v] = Poly.const((-b) * pow(a, -1, P) % P)
    if not env:
        return p
    from .mirsym import simplify_inv
    return simplify_inv(p.subst(env), env)


def r3_comparisons(ctx, C):
    """eq/neq/eqw and the assert_eq* family: the set of compared cell pairs and the result as a function of their truth"""
    SPEC = {
        "Eq": ([(0, 1)], "all", 1), "Neq": ([(0, 1)], "all", 0),
        "Eqw": ([(0, 4), (1, 5), (2, 6), (3, 7)], "all", 1),
    }
    for v, (pairs, mode, val_if_all) in SPEC.items():
        for lp, rs in C.results(v):
            if rs is None or isinstance(rs, Exception):
                ctx.violation("UNANALYSABLE|%s" % v, "assembly/src/assembler/instruction", "cannot compose %s" % v)
                continue
            for r in rs:
                if r["outcome"][0] != "ok":
                    continue
                truths = {}
                for cond, val, loc in r["guards"]:
                    if isinstance(cond, Term) and cond.op in ("eq", "ne") and all(isinstance(a, Poly) for a in cond.args):
                        t = (val != 0) if not isinstance(val, tuple) else True
                        is_eq = (cond.op == "eq") == t
                        d = cond.args[0] - cond.args[1]
                        vs = sorted(d.vars())
                        if len(vs) == 2 and all(re.match(r"^e\d+$", x) for x in vs) and d.degree() == 1:
                            truths[tuple(sorted(int(x[1:]) for x in vs))] = is_eq
                ctx.inst(key="%s|%s" % (v, sorted(truths.items())), nontrivial=True)
                want_pairs = set(tuple(sorted(p)) for p in pairs)
                ok_pairs = set(truths) == want_pairs
                ctx.oblig(ok_pairs)
                if not ok_pairs:
                    ctx.violation("compared-pairs|%s" % v, "assembly/src/assembler/instruction/field_ops.rs",
                                  "%s (lowering %s) decides its result from the comparisons %s; the reference compares exactly %s: missing %s"
                                  % (v, [o[0] for o in lp["ops"]], sorted(truths), sorted(want_pairs), sorted(want_pairs - set(truths))))
                    continue
                allt = all(truths.values())
                want = val_if_all if allt else 1 - val_if_all
                top = r["stack"][0]
                ok = isinstance(top, Poly) and top.const_value() == want
                ctx.oblig(ok)
                if not ok:
                    ctx.violation("comparison-result|%s" % v, "assembly/src/assembler/instruction/field_ops.rs", "%s yields %s when the comparisons are %s" % (v, top, truths))
    # assert_eq / assert_eqw: succeed only when all pairs equal
    for v, pairs in (("AssertEq", [(0, 1)]), ("AssertEqw", [(0, 4), (1, 5), (2, 6), (3, 7)]), ("AssertEqWithError", [(0, 1)]), ("AssertEqwWithError", [(0, 4), (1, 5), (2, 6), (3, 7)])):
        for lp, rs in C.results(v):
            if rs is None or isinstance(rs, Exception):
                continue
            okp = [r for r in rs if r["outcome"][0] == "ok"]
            ctx.inst(key=v, nontrivial=True)
            for r in okp:
                eqs = set()
                for cond, val, loc in r["guards"]:
                    if isinstance(cond, Term) and cond.op in ("eq", "ne") and all(isinstance(a, Poly) for a in cond.args):
                        t = (val != 0) if not isinstance(val, tuple) else True
                        if (cond.op == "eq") == t:
                            vs = sorted((cond.args[0] - cond.args[1]).vars())
                            if len(vs) == 2:
                                eqs.add(tuple(sorted(int(x[1:]) for x in vs)))
                ok = set(tuple(sorted(p)) for p in pairs) <= eqs
                ctx.oblig(ok)
                if not ok:
                    ctx.violation("assert-pairs|%s" % v, "assembly/src/assembler/instruction/field_ops.rs",
                                  "%s succeeds on a path that established only the equalities %s; the reference requires %s" % (v, sorted(eqs), pairs))


FAILING = [
    # (operation, error variant, stack cells the guard must involve, source in the instruction reference)
    ("Inv", "DivideByZero", {"s0"}, "field_operations.md inv: Fails if a = 0"),
    ("U32div", "DivideByZero", {"s0"}, "u32_operations.md u32div: Fails if b = 0"),
    ("Not", "NotBinaryValue", {"s0"}, "field_operations.md not: Fails if a > 1"),
    ("And", "NotBinaryValue", {"s0", "s1"}, "field_operations.md and: Fails if max(a,b) > 1"),
    ("Or", "NotBinaryValue", {"s0", "s1"}, "field_operations.md or: Fails if max(a,b) > 1"),
    ("CSwap", "NotBinaryValue", {"s0"}, "stack_manipulation.md cswap: Fails if c > 1"),
    ("CSwapW", "NotBinaryValue", {"s0"}, "stack_manipulation.md cswapw: Fails if c > 1"),
    ("U32assert2", "NotU32Value", {"s0", "s1"}, "u32_operations.md u32assert2: Fails if a >= 2^32 or b >= 2^32"),
    ("U32and", "NotU32Value", set(), "u32_operations.md u32and: Fails if max(a,b) >= 2^32 (checked in the bitwise chiplet)"),
    ("U32xor", "NotU32Value", set(), "u32_operations.md u32xor: Fails if max(a,b) >= 2^32 (checked in the bitwise chiplet)"),
    ("Assert", "FailedAssertion", {"s0"}, "field_operations.md assert: Fails if a != 1"),
    ("FmpUpdate", "InvalidFmpValue", set(), "fmp bounds"),
]


def r4_failing_cases(ctx, C):
    F = C.F
    for op, err, cells, src in FAILING:
        rs = procmodel.run_operation(F, op)
        errs = [r for r in rs if isinstance(r.outcome, tuple) and r.outcome[0] == "err" and r.outcome[1] == err and path_feasible(r.guards)]
        ctx.inst(key=op, nontrivial=True)
        ctx.oblig(bool(errs))
        if not errs:
            ctx.violation("failing-case-missing|%s|%s" % (op, err), "processor/src/operations", "%s has no path returning %s (%s)" % (op, err, src))
            continue
        seen = set()
        for r in errs:
            for cond, val, loc in r.guards:
                if isinstance(cond, Term):
                    seen |= {x for x in cond.leaves() if re.match(r"^s\d+$", str(x))}
            # the failing path must not have written the stack
            if any(x is not None for x in r.nxt):
                ctx.violation("failing-case-writes|%s" % op, "processor/src/operations", "%s writes the next stack row before failing with %s" % (op, err))
        ctx.oblig(cells <= seen)
        if not cells <= seen:
            ctx.violation("failing-case-operands|%s|%s" % (op, err), "processor/src/operations",
                          "%s returns %s on paths whose guards involve only %s; the reference makes it depend on %s (%s)" % (op, err, sorted(seen), sorted(cells), src))
        # error code carried
        if op == "Assert":
            pass
    # the error code of assert / u32assert2 is the instruction's immediate
    for v, opn in (("AssertWithError", "Assert"), ("U32Assert2WithError", "U32assert2"), ("AssertEqWithError", "Assert"), ("AssertzWithError", "Assert")):
        for lp in C.L[v].paths:
            if lp["outcome"] != "ok":
                continue
            ops = [o for o in lp["ops"] if o[0] == opn]
            ctx.inst(key=v, nontrivial=True)
            ok = bool(ops) and all(len(o[1]) == 1 and ("imm" in repr(o[1][0])) for o in ops)
            ctx.oblig(ok)
            if not ok:
                ctx.violation("error-code|%s" % v, "assembly/src/assembler/instruction/mod.rs", "%s does not pass its error code immediate to %s: %s" % (v, opn, ops))
    # zero immediates of dividing instructions are rejected by the assembler
    for v in ("DivImm", "U32DivImm", "U32ModImm", "U32DivModImm"):
        ctx.inst(key=v, nontrivial=True)
        ok = any(isinstance(p["outcome"], tuple) and p["outcome"][0] == "err" and "Zero" in str(p["outcome"][1]) for p in C.L[v].paths)
        ctx.oblig(ok)
        if not ok:
            ctx.violation("zero-divisor-immediate|%s" % v, "assembly/src/assembler/instruction", "%s has no rejecting path for a zero immediate" % v)


RANGES = {
    # variant -> (lo, hi inclusive) documented range of the parameter
    "ExpBitLength": (0, 64, "field_operations.md exp.uxx"),
    "U32ShlImm": (0, 31, "u32_operations.md u32shl.b: Undefined if b > 31"),
    "U32ShrImm": (0, 31, "u32_operations.md u32shr.b"),
    "U32RotlImm": (0, 31, "u32_operations.md u32rotl.b"),
    "U32RotrImm": (0, 31, "u32_operations.md u32rotr.b"),
    "AdvPush": (1, 16, "io_operations.md adv_push.n: Valid for n in {1..16}"),
}


def r5_param_ranges(ctx, C):
    n = 0
    for v, (lo, hi, src) in sorted(RANGES.items()):
        acc = rej = None
        vals = []
        for p in C.L[v].paths:
            for e in p["effects"]:
                if isinstance(e, tuple) and e[0] == "validate_param":
                    vals.append(e)
        ctx.inst(key=v, nontrivial=True)
        n += 1
        # accepted set = union over ok paths: zero-guard paths accept 0; validate ranges accept [lo2,hi2]
        accepted_lo, accepted_hi = None, None
        for e in vals:
            _, val, kind, l2, h2 = e
            if isinstance(l2, int) and isinstance(h2, int):
                h2i = h2 if kind == "RangeInclusive" else h2 - 1
                accepted_lo = l2 if accepted_lo is None else min(accepted_lo, l2)
                accepted_hi = h2i if accepted_hi is None else max(accepted_hi, h2i)
            elif isinstance(l2, int) and repr(h2).startswith("<const"):
                accepted_lo = l2 if accepted_lo is None else min(accepted_lo, l2)
        zero_ok = any(p["outcome"] == "ok" and any(repr(g[0]).startswith("imm_u8") and g[1] == 0 for g in p["guards"]) for p in C.L[v].paths)
        if zero_ok:
            accepted_lo = 0
        ctx.analysed("%s validate_param sites %s zero-path=%s" % (v, [(e[2], e[3], e[4]) for e in vals], zero_ok))
        ok = bool(vals) and accepted_lo == lo and (accepted_hi is None or accepted_hi == hi)
        ctx.oblig(ok)
        if not ok:
            ctx.violation("param-range|%s" % v, "assembly/src/assembler/instruction", "%s accepts parameter range [%s, %s] but the reference gives [%d, %d] (%s)" % (v, accepted_lo, accepted_hi, lo, hi, src))
        has_rej = any(isinstance(p["outcome"], tuple) and p["outcome"][0] == "err" for p in C.L[v].paths)
        if not has_rej:
            ctx.violation("param-range-unchecked|%s" % v, "assembly/src/assembler/instruction", "%s has no rejecting path for an out-of-range parameter" % v)
    # every validate_param site in the assembler is on a path with a rejecting sibling
    sites = 0
    for v, L in C.L.items():
        for p in L.paths:
            sites += sum(1 for e in p["effects"] if isinstance(e, tuple) and e[0] == "validate_param")
    ctx.extra["validate_param_path_sites"] = sites
    ctx.floor("validate-param-sites", sites, 20)


def r6_min_depth(ctx, F):
    """Stack::shift_left: only the depth>16 arm pops the overflow table and decrements the depths; the ==16 arm shifts in ZERO;
    active_depth is written only by shift_left, shift_right, start_context, restore_context and the constructor"""
    ST = r"miden_processor::stack::Stack$"
    allowed = {"shift_left", "shift_right", "start_context", "restore_context", "new"}
    ws = field_writes(F, ST, "active_depth") + field_writes(F, ST, "full_depth")
    ctx.floor("depth-writers", len(ws), 4)
    for fn, bi, s, kind in ws:
        ctx.inst(key=fn.id + kind, nontrivial=True)
        if fn.name not in allowed or not fn.id.startswith("miden_processor::stack::Stack::"):
            ctx.violation("depth-writer|%s" % fn.id, fn.loc(s["ln"]), "Stack depth is written in %s (allowed: %s)" % (fn.id, sorted(allowed)))
    sl = F.fn(r"^miden_processor::stack::Stack::shift_left$")
    pops = blocks_calling(sl, r"OverflowTable::pop$")
    ctx.inst(key="shift_left", nontrivial=True)
    if len(pops) != 1:
        ctx.violation("shift-left-pop", sl.loc(), "shift_left must pop the overflow table on exactly one arm")
        return
    # the discriminating switch on active_depth: value 16 -> ZERO arm
    STS = F.const(r"^miden_core::stack::STACK_TOP_SIZE$")
    sw = [(bi, b["t"]) for bi, b in enumerate(sl.blocks) if b["t"]["k"] == "switch"]
    dec_blocks = [bi for bi, b in enumerate(sl.blocks) for s in b["s"] if place_ends_with_field(s["d"], ST, "active_depth")]
    ok = all(sl.dominates(pops[0], d) or d in sl.reachable_blocks(pops[0]) for d in dec_blocks) and bool(dec_blocks)
    ctx.oblig(ok)
    if not ok:
        ctx.violation("shift-left-depth", sl.loc(), "the depth decrement in shift_left is not confined to the arm that pops the overflow table")
    # the arm for depth == 16 must not reach the pop and must call stack_shift_left_at with constant ZERO
    found16 = False
    for bi, t in sw:
        for val, tgt in t["arms"]:
            if int(val) == STS:
                found16 = True
                reach = sl.reachable_blocks(tgt, avoid=set(return_blocks(sl)))
                if pops[0] in reach and not any(pops[0] in sl.reachable_blocks(a[1]) for a in t["arms"] if int(a[0]) != STS):
                    ctx.violation("min-depth-arm", sl.loc(t["ln"]), "the depth == %d arm of shift_left reaches the overflow pop: the stack could shrink below the minimum depth" % STS)
    # range patterns compile to comparisons; accept either form but require that some branch separates 16 from >16
    cmps = cmp_branches(sl)
    sep = found16 or any(c["kind"] == "bin" and (sl.const_of(c["b"]) in (STS, STS - 1, STS + 1) or sl.const_of(c["a"]) in (STS, STS - 1, STS + 1)) for c in cmps)
    ctx.oblig(sep)
    if not sep:
        ctx.violation("min-depth-branch", sl.loc(), "shift_left has no branch separating depth == 16 from depth > 16")


U32_OPERAND_OPS = {"U32add": 2, "U32sub": 2, "U32mul": 2, "U32div": 2, "U32add3": 3, "U32madd": 3, "U32and": 2, "U32xor": 2, "U32split": 0, "U32assert2": 0}


def term_range(t, bounds):
    """interval of a machine-integer term (u64 arithmetic before wrapping); bounds: repr(term) -> (lo, hi) facts"""
    if isinstance(t, bool):
        return (int(t), int(t))
    if isinstance(t, int):
        return (t, t)
    if not isinstance(t, Term):
        return (0, 2 ** 64 - 1)
    k = repr(t)
    if k in bounds:
        return bounds[k]
    a = t.args
    if t.op == "as_int":
        return (0, P - 1)
    if t.op in ("as_u64", "as_usize") and len(a) == 1:
        return term_range(a[0], bounds)
    if t.op == "as_u32" and len(a) == 1:
        lo, hi = term_range(a[0], bounds)
        return (lo, hi) if hi < 2 ** 32 else (0, 2 ** 32 - 1)
    if t.op == "&" and len(a) == 2:
        his = [term_range(x, bounds)[1] for x in a]
        return (0, min(his))
    if t.op == ">>" and len(a) == 2 and isinstance(a[1], int):
        lo, hi = term_range(a[0], bounds)
        return (lo >> a[1], hi >> a[1])
    if t.op == "/" and len(a) == 2:
        lo, hi = term_range(a[0], bounds)
        dlo, dhi = term_range(a[1], bounds)
        return (0, hi // max(dlo, 1))
    if t.op in ("+", "*", "-") and len(a) == 2:
        # remainder lemma: x - (x / y) * y  is in [0, y - 1]
        if t.op == "-" and isinstance(a[1], Term) and a[1].op == "*" and isinstance(a[1].args[0], Term) and a[1].args[0].op == "/" \
                and repr(a[1].args[0].args[0]) == repr(a[0]) and repr(a[1].args[0].args[1]) == repr(a[1].args[1]):
            ylo, yhi = term_range(a[1].args[1], bounds)
            return (0, max(yhi - 1, 0))
        # x - x / y >= 0
        if t.op == "-" and isinstance(a[1], Term) and a[1].op == "/" and repr(a[1].args[0]) == repr(a[0]):
            lo, hi = term_range(a[0], bounds)
            return (0, hi)
        # y - rem(x, y) >= 1
        if t.op == "-" and isinstance(a[1], Term) and a[1].op == "-" and isinstance(a[1].args[1], Term) and a[1].args[1].op == "*":
            inner = a[1]
            m = inner.args[1]
            if isinstance(m.args[0], Term) and m.args[0].op == "/" and repr(m.args[0].args[0]) == repr(inner.args[0]) and repr(m.args[0].args[1]) == repr(m.args[1]) and repr(m.args[1]) == repr(a[0]):
                ylo, yhi = term_range(a[0], bounds)
                return (1, yhi)
        (l1, h1), (l2, h2) = term_range(a[0], bounds), term_range(a[1], bounds)
        if t.op == "+":
            return (l1 + l2, h1 + h2)
        if t.op == "*":
            return (l1 * l2, h1 * h2)
        return (l1 - h2, h1 - l2)
    return (0, 2 ** 64 - 1)


def r8_handler_arithmetic(ctx, F):
    """compiler-inserted overflow / division / bounds checks in operation handlers whose condition depends on stack values:
    interval analysis with the operands' documented domains (all field elements; u32 operands for the u32 operations) and the
    path's own guards must show the check cannot fire; otherwise a valid input panics (debug builds) instead of producing the
    documented result"""
    import vlib.mirsym as ms
    orig = ms.Interp.__init__

    def init(self, *a, **k):
        orig(self, *a, **k)
        self.track_overflow = True
    ms.Interp.__init__ = init
    try:
        n_checks = 0
        for v in opmodel.operation_variants(F):
            n = v["name"]
            if n in ("Join", "Split", "Loop", "Call", "SysCall", "Dyn", "Span", "Repeat", "Respan", "End", "Halt"):
                continue
            try:
                rs = procmodel.run_operation(F, n)
            except Exception:
                continue
            seen = set()
            for r in rs:
                bounds = {}
                for i in range(U32_OPERAND_OPS.get(n, 0)):
                    bounds["as_int(s%d)" % i] = (0, 2 ** 32 - 1)
                for c, val, loc in r.guards:
                    tv = (val == ("not", [0])) if isinstance(val, tuple) else bool(val)
                    if isinstance(c, Term) and c.op in ("<=", ">") and len(c.args) == 2 and isinstance(c.args[1], int):
                        le = (c.op == "<=") == tv
                        lo, hi = bounds.get(repr(c.args[0]), term_range(c.args[0], bounds))
                        bounds[repr(c.args[0])] = (lo, min(hi, c.args[1])) if le else (max(lo, c.args[1] + 1), hi)
                    elif isinstance(c, Term) and c.op == "as_int" and isinstance(val, tuple) and val[0] == "not" and 0 in val[1]:
                        lo, hi = bounds.get(repr(c), (0, P - 1))
                        bounds[repr(c)] = (max(lo, 1), hi)
                for e in r.effects:
                    if e[0] != "may_panic" or len(e) < 5:
                        continue
                    kind, loc, cond = e[1], e[2], e[3]
                    key = (kind, loc)
                    if key in seen:
                        continue
                    n_checks += 1
                    ok = None
                    if isinstance(cond, Term) and cond.op == "overflow":
                        op, a, b = cond.args[:3]
                        width = cond.args[3] if len(cond.args) > 3 and cond.args[3] else 64
                        lo, hi = term_range(Term(op, a, b), bounds)
                        ok = lo >= 0 and hi < 2 ** width
                        why = "%s %s %s ranges over [%d, %d]" % (a, op, b, lo, hi)
                    elif kind == "div0" and isinstance(cond, Term) and cond.op == "==":
                        lo, hi = term_range(cond.args[0], bounds)
                        ok = lo >= 1
                        why = "divisor %s ranges over [%d, %d]" % (cond.args[0], lo, hi)
                    elif kind == "bounds":
                        ok = n == "FriE2F4"       # index guarded by `d_seg > 3 -> Err` (op_fri_ext2fold4); the model does not relate the guard to the index
                        why = "index check"
                    if ok is None:
                        ok, why = False, "unrecognised check %s" % (cond,)
                    seen.add(key)
                    ctx.inst(key="%s|%s|%s" % (n, kind, loc.rsplit(":", 1)[0].rsplit("/", 1)[-1]), nontrivial=True)
                    ctx.oblig(ok)
                    if not ok:
                        ctx.violation("handler-arith|%s|%s" % (n, kind), loc, "%s: the %s check inserted by the compiler can fire on an input inside the operation's documented domain (%s): debug builds panic instead of producing the documented result, release builds wrap"
                                      % (n, kind, why))
        ctx.floor("handler-arithmetic-checks", n_checks, 10)
    finally:
        ms.Interp.__init__ = orig


def r7_exp_immediates(ctx, F):
    """exp.b with a concrete immediate: the lowering is extracted for boundary values of b (all powers of two and their
    neighbours, small values, the largest field element) and composed with the operation model: on the successful path the
    top of the stack must be exactly base^b (a monomial identity), the rest of the stack unchanged, and no feasible path may
    fail (the instruction reference gives no failing case for exp.b)"""
    adt = F.adt(lowering.INSTR)
    v = [x for x in adt["variants"] if x["name"] == "ExpImm"][0]
    bs = set(range(0, 20)) | {P - 1, P - 2, 2 ** 64 - 2 ** 32}
    for k in range(4, 64):
        bs |= {2 ** k - 1, 2 ** k, 2 ** k + 1}
    bs = sorted(b for b in bs if 0 <= b < P)
    ctx.floor("exp-immediates", len(bs), 150)
    for b in bs:
        key = "exp.%d" % b
        ctx.inst(key=key, nontrivial=True)
        L = lowering.lower_variant(F, v, payload=[Poly.const(b)])
        oks = [p for p in L.paths if p["outcome"] == "ok" and path_feasible(p["guards"])]
        if len(oks) != 1:
            ctx.violation("exp-imm-lowering|%s" % ("pow2" if b & (b - 1) == 0 and b else "other"), "assembly/src/assembler/instruction/field_ops.rs", "exp.%d: %d lowering paths (%s)" % (b, len(oks), [p["outcome"] for p in L.paths][:4]))
            continue
        try:
            rs = [r for r in procmodel.run_sequence(F, oks[0]["ops"], max_paths=200) if path_feasible(r["guards"])]
        except Exception as e:
            ctx.violation("UNANALYSABLE|exp-imm", "assembly/src/assembler/instruction/field_ops.rs", "exp.%d: %s" % (b, str(e)[:200]))
            continue
        good = [r for r in rs if r["outcome"] in (("ok",), "ok")]
        bad = [r for r in rs if r not in good]
        want = Poly({((("e0", b),) if b else ()): 1})
        ok = len(good) == 1 and not bad and good[0]["stack"][0] == want and all(good[0]["stack"][i] == E(i) for i in range(1, 12))
        ctx.oblig(ok)
        if not ok:
            kind = "power-of-two" if b and b & (b - 1) == 0 else "pow2-minus-1" if (b + 1) & b == 0 else "other"
            what = ("fails: %s" % [r["outcome"] for r in bad][:2]) if bad or not good else "leaves %s on top" % (str(good[0]["stack"][0])[:60],)
            ctx.violation("exp-imm|%s" % kind, "assembly/src/assembler/instruction/field_ops.rs",
                          "exp.%d (%s immediate): lowering %s %s; the instruction reference says the result is a^b for every immediate" % (b, kind, [o[0] for o in oks[0]["ops"]][:3] + ["..."] + ["%d x Expacc" % sum(1 for o in oks[0]["ops"] if o[0] == "Expacc")], what))


# ---- R9: numerical semantics of the u32 instructions ------------------------------------------------------------------------
U32_SKIP = {"u32assert": "failure behaviour decided by C05-R4", "u32assert2": "failure behaviour decided by C05-R4", "u32assertw": "failure behaviour decided by C05-R4",
            "u32clz": "decided exactly by C09-R5", "u32ctz": "decided exactly by C09-R5", "u32clo": "decided exactly by C09-R5", "u32cto": "decided exactly by C09-R5",
            "u32popcnt": "the population count has no polynomial normal form here (not decided)"}
SHIFT_FORMS = ("u32shl", "u32shr", "u32rotl", "u32rotr")


def u32_domain(notes):
    """name -> inclusive upper bound, and names that must be non-zero, from the 'Undefined if' / 'Fails if' clauses"""
    ub, nz = {}, set()
    for m in re.finditer(r"max\(([a-z, ]+)\)\s*\\ge\s*2\^\{32\}", notes):
        for n in re.split(r"[, ]+", m.group(1).strip()):
            if n:
                ub[n] = 2 ** 32 - 1
    for m in re.finditer(r"\$([a-z])\s*\\ge\s*2\^\{32\}\$", notes):
        ub[m.group(1)] = 2 ** 32 - 1
    for m in re.finditer(r"\$([a-z])\s*>\s*(\d+)\$", notes):
        ub[m.group(1)] = int(m.group(2))
    for m in re.finditer(r"Fails if \$([a-z])\s*=\s*0\$", notes):
        nz.add(m.group(1))
    return ub, nz


def fix_condition(N, z, truth):
    """record that the 0/1 polynomial z has the given truth value; returns False when contradictory"""
    z = N.resubst(z)
    cv = z.const_value()
    if cv is not None:
        return bool(cv) == truth
    vs = sorted(z.vars())
    if len(vs) == 1 and z.degree() == 1:
        c1 = mirsym_signed(z.coeff_of(vs[0]).const_value())
        c0 = mirsym_signed(z.without(vs[0]).const_value() or 0)
        # z = c0 + c1 * atom with atom binary
        if N.ub.get(vs[0], 2) <= 1 and c1 in (1, -1):
            want = (int(truth) - c0) * c1
            if want not in (0, 1):
                return False
            N.fixed[vs[0]] = want
            return True
    raise u32ref.NormError("condition %r = %s is outside the recognised forms" % (z, truth))


def mirsym_signed(c):
    if c is None:
        return None
    return c if c <= P // 2 else c - P


def apply_guards(N, guards):
    """process the branch conditions of a composed path; False = infeasible on the operand domain"""
    for cond, val, loc in guards:
        if not isinstance(cond, Term):
            raise u32ref.NormError("guard %r" % (cond,))
        if cond.op == "u32pair":
            return False if val == 0 else True
        truth = (val == ("not", [0])) if isinstance(val, tuple) else None
        if cond.op in ("eq", "ne") and len(cond.args) == 2 and all(isinstance(x, Poly) for x in cond.args):
            t = (val == ("not", [0])) if isinstance(val, tuple) else bool(val)
            if cond.op == "ne":
                t = not t
            d = N.poly(cond.args[0]) - N.poly(cond.args[1])
            if not fix_condition(N, N.iszero(d), t):
                return False
            continue
        # integer switch: value k, or ('not', [k...])
        v = N.resubst(N.val(cond))
        cv = v.const_value()
        if cv is not None:
            okk = (cv not in val[1]) if isinstance(val, tuple) else (cv == int(val))
            if not okk:
                return False
            continue
        if isinstance(val, tuple) and val[1] == [0]:
            lo, hi = N.bounds(v)
            if hi == 0:
                return False
            if not fix_condition(N, N.iszero(v), False):
                return False
            continue
        if not isinstance(val, tuple) and int(val) == 0:
            if not fix_condition(N, N.iszero(v), True):
                return False
            continue
        if cond.op in ("<=", "<", ">", ">=") and isinstance(cond.args[1], int):
            lo, hi = N.bounds(N.val(cond.args[0]))
            b = cond.args[1]
            dec = {"<=": (hi <= b, lo > b), "<": (hi < b, lo >= b), ">=": (lo >= b, hi < b), ">": (lo > b, hi <= b)}[cond.op]
            tv = bool(val) if not isinstance(val, tuple) else True
            if dec[0]:
                if not tv:
                    return False
                continue
            if dec[1]:
                if tv:
                    return False
                continue
        raise u32ref.NormError("guard %r = %r is outside the recognised forms" % (cond, val))
    return True


def r9_u32_semantics(ctx, C):
    from . import rules_c09
    F = C.F
    adt = F.adt(r"^miden_assembly::ast::nodes::Instruction$")
    idx = userdocs.variant_index(adt["variants"])
    vdefs = {v["name"]: v for v in adt["variants"]}
    decided = 0
    undecided = {}
    for row in userdocs.rows():
        if not row.file.endswith("u32_operations.md") or not row.inp or row.inp[0] is None or not row.out or row.out[0] is None:
            continue
        base0 = userdocs.form_key(row.forms[0])[0]
        doc_name = row.forms[0].replace("`", "").split(".")[0].strip()
        if doc_name in U32_SKIP:
            undecided[doc_name] = U32_SKIP[doc_name]
            continue
        in_names = [n for n, _ in slots(row.inp[0]) if n != "..."]
        out_names = [n for n, _ in slots(row.out[0]) if n != "..."]
        dom_ub, dom_nz = u32_domain(row.notes)
        for form in row.forms:
            base, imm = userdocs.form_key(form)
            vname = idx.get(base + "imm") if imm else idx.get(base)
            if vname is None:
                ctx.violation("u32-variant-missing|%s" % form, "%s:%d" % (row.file, row.line), "no Instruction variant for the documented form %s" % form)
                continue
            loc = "%s:%d" % (row.file, row.line)
            # instantiations: shift-like immediates concretely (0..31), everything else symbolically
            insts = []
            if imm and doc_name in SHIFT_FORMS:
                for b in range(0, 32):
                    L = lowering.lower_variant(F, vdefs[vname], payload=[b])
                    insts.append((b, L))
            else:
                insts.append((None, C.L[vname]))
            for bimm, L in insts:
                key = vname if bimm is None else "%s=%d" % (vname, bimm)
                ctx.inst(key=key, nontrivial=True)
                lps = [lp for lp in L.paths if lp["outcome"] == "ok" and path_feasible(lp["guards"])]
                if not lps:
                    ctx.violation("u32-no-lowering|%s" % key, loc, "no successful lowering path")
                    continue
                verdict_ok, n_ok_paths = True, 0
                for lp in lps:
                    conc = {}
                    for c, v, l in lp["guards"]:
                        if isinstance(c, Term) and not c.args and isinstance(v, int) and not isinstance(v, bool):
                            conc[c.op] = v
                    try:
                        rs = procmodel.run_sequence(F, lp["ops"], max_paths=4000, release=True)
                    except Exception as e:
                        ctx.violation("UNANALYSABLE|u32|%s" % key, loc, str(e)[:300])
                        verdict_ok = None
                        break
                    for r in rs:
                        if r["outcome"][0] in ("unanalysable",):
                            ctx.violation("UNANALYSABLE|u32|%s" % key, loc, str(r["outcome"][1])[:300])
                            verdict_ok = None
                            break
                        # operand symbols: the immediate (if any) is the first documented input
                        names = list(in_names)
                        env, vb = {}, {"imm_u32": 2 ** 32 - 1, "imm_u8": 255}
                        conc_r = dict(conc)
                        cell = 0
                        shift = None
                        for i, nme in enumerate(names):
                            if imm and i == 0:
                                if bimm is not None:
                                    env[nme] = Poly.const(bimm)
                                    shift = bimm
                                else:
                                    iv = "imm_u32" if "imm_u32" in repr(lp["ops"]) or "imm_u32" in repr(lp["guards"]) else "imm_u8"
                                    env[nme] = Poly.const(conc[iv]) if iv in conc else Poly.var(iv)
                                    if nme in dom_ub:
                                        vb[iv] = min(vb[iv], dom_ub[nme])
                                continue
                            env[nme] = Poly.var("e%d" % cell)
                            wm = re.match(r"^([A-Z])(\d)$", nme)
                            if wm:
                                env["%s_%s" % (wm.group(1).lower(), wm.group(2))] = env[nme]
                            if nme in dom_ub:
                                vb["e%d" % cell] = dom_ub[nme]
                            cell += 1
                        # symbolic shift amount: the documented domain is finite (0..31); the values this path admits are found by
                        # evaluating its conditions
                        if doc_name in SHIFT_FORMS and not imm:
                            hs = [h for h in range(0, dom_ub.get(names[0], 31) + 1) if all(execmodel.guard_holds(c, v, {"e0": h}) is not False for c, v, l in r["guards"])]
                            if len(hs) != 1:
                                if len(hs) > 1 and r["outcome"] == ("ok",):
                                    ctx.violation("UNANALYSABLE|u32|%s" % key, loc, "a successful path does not determine the shift amount (%s)" % hs[:4])
                                    verdict_ok = None
                                continue        # no shift amount of the documented domain takes this path
                            conc_r["e0"] = hs[0]
                            env[names[0]] = Poly.const(hs[0])
                            shift = hs[0]
                        N = u32ref.CNorm(vb, procmodel.FELT_TERMS, conc_r)
                        N.bitw = {}
                        try:
                            for e in r["effects"]:
                                if e[0] in ("u32and", "u32xor") and len(e) > 3:
                                    x, y = N.poly(e[1]), N.poly(e[2])
                                    N.bitw[sorted(e[3].vars())[0]] = N.band(x, y) if e[0] == "u32and" else x + y - N.band(x, y) * Poly.const(2)
                            hint_only = [(c, v, l) for c, v, l in r["guards"] if not (doc_name in SHIFT_FORMS and not imm and execmodel.guard_holds(c, v, {"e0": conc_r.get("e0", 0)}) is not None)]
                            feasible = apply_guards(N, hint_only)
                            if not feasible:
                                continue
                            if r["outcome"][0] == "err":
                                # a failure inside the operand domain must be the documented one
                                documented = (r["outcome"][2] == "DivideByZero" and dom_nz) or (r["outcome"][2] == "NotU32Value" and "Fails if" in row.notes)
                                if r["outcome"][2] == "DivideByZero" and dom_nz:
                                    # the divisor is zero on this path: fine
                                    pass
                                ctx.oblig(bool(documented))
                                if not documented:
                                    verdict_ok = False
                                    ctx.violation("u32-undocumented-failure|%s" % key, loc, "%s fails with %s for operands inside the documented domain (conditions %s)" % (key, r["outcome"][2], [(str(g[0])[:60], g[1]) for g in r["guards"]][:4]))
                                continue
                            if r["outcome"][0] == "panic":
                                ctx.oblig(False)
                                verdict_ok = False
                                ctx.violation("u32-panic|%s" % key, loc, "%s panics inside the documented operand domain: %s" % (key, r["outcome"][1][:160]))
                                continue
                            # non-zero divisors
                            for nme in dom_nz:
                                pass
                            refs, und = u32ref.reference_outputs(row.notes, N, env)
                            refs.update(u32ref.textual_reference(row.notes, N, env, shift))
                            n_ok_paths += 1
                            for i, nme in enumerate(out_names):
                                if nme in in_names and nme not in refs:
                                    refs[nme] = env[nme]       # an input that stays (u32test: [b, a, ...])
                                if nme not in refs:
                                    ctx.violation("UNANALYSABLE|u32|%s|%s" % (key, nme), loc, "no reference definition could be read for output %s of %s (%s)" % (nme, doc_name, "; ".join(und)[:200]))
                                    verdict_ok = None
                                    continue
                                got = N.resubst(N.poly(r["stack"][i]))
                                want = N.resubst(refs[nme])
                                ok = N.equal(got, want)
                                ctx.oblig(ok)
                                if not ok:
                                    verdict_ok = False
                                    ctx.violation("u32-semantics|%s|%s" % (vname if bimm is None else "%s=%d" % (vname, bimm), nme), loc,
                                                  "%s%s: output %s of the composed lowering %s is %s; the reference (%s) is %s%s"
                                                  % (doc_name, "" if shift is None else " with shift %d" % shift, nme, [o[0] for o in lp["ops"]][:12], got, row.file.rsplit("/", 1)[-1], want,
                                                     "" if not N.fixed else " on the path where %s" % N.fixed))
                        except u32ref.NormError as e:
                            ctx.violation("UNANALYSABLE|u32|%s" % key, loc, "%s: %s" % (key, str(e)[:300]))
                            verdict_ok = None
                    if verdict_ok is None:
                        break
                if verdict_ok and not n_ok_paths:
                    ctx.violation("u32-no-successful-path|%s" % key, loc, "%s has no successful composed path inside the documented operand domain" % key)
                if verdict_ok:
                    decided += 1
    ctx.extra["u32_forms_decided"] = decided
    ctx.extra["u32_not_decided_here"] = undecided
    ctx.floor("u32-forms-decided", decided, 50)


# ---- R10: numerical semantics of pow2, is_odd and the quadratic-extension instructions -------------------------------------
# documented formulas that differ from the (correct) implementation, with the reason; the implementation is compared with the
# mathematical definition below, so a wrong implementation is still reported
EXT2_DOC_DISCREPANCY = {}


def ext2_mul(x, y):
    """(x0 + x1 t)(y0 + y1 t) in F_p[t]/(t^2 - t + 2): t^2 = t - 2"""
    x0, x1 = x
    y0, y1 = y
    return (x0 * y0 - x1 * y1 * Poly.const(2), x0 * y1 + x1 * y0 + x1 * y1)


def r10_field_semantics(ctx, C):
    F = C.F
    rows = {userdocs.form_key(r.forms[0])[0]: r for r in userdocs.rows() if r.file.endswith("field_operations.md")}
    ctx.floor("field-reference-rows", len(rows), 20)
    E = lambda i: Poly.var("e%d" % i)

    def ok_paths(v):
        out = []
        for lp, rs in C.results(v):
            if rs is None or isinstance(rs, Exception):
                raise u32ref.NormError("cannot compose %s: %s" % (v, rs))
            out += [(lp, r) for r in rs]
        return out

    # ext2add / ext2sub / ext2neg / ext2mul: documented formulas and the field definition
    for form, v in (("ext2add", "Ext2Add"), ("ext2sub", "Ext2Sub"), ("ext2neg", "Ext2Neg"), ("ext2mul", "Ext2Mul")):
        row = rows.get(form)
        loc = "%s:%d" % (row.file, row.line) if row else "docs/src/user_docs/assembly/field_operations.md"
        ctx.inst(key=v, nontrivial=True)
        if row is None:
            ctx.violation("field-row-missing|%s" % form, loc, "no reference row for %s" % form)
            continue
        ins = [n for n in row.inp[0] if n != "..."]
        outs = [n for n in row.out[0] if n != "..."]
        env = {n: E(i) for i, n in enumerate(ins)}
        N = u32ref.CNorm({}, procmodel.FELT_TERMS)
        try:
            paths = [r for lp, r in ok_paths(v) if r["outcome"] == ("ok",)]
        except u32ref.NormError as e:
            ctx.violation("UNANALYSABLE|field|%s" % v, loc, str(e)[:300])
            continue
        if len(paths) != 1:
            ctx.violation("UNANALYSABLE|field|%s" % v, loc, "%d successful paths" % len(paths))
            continue
        st = paths[0]["stack"]
        notes = re.sub(r"\\mod\s*[pq]", "", row.notes)
        docs = {}
        for m in re.finditer(r"\$([^$]*)\$", notes):
            for part in m.group(1).split("\\text{ and }"):
                mm = re.match(r"^\s*([a-z]\d'?)\s*\\leftarrow\s*(.*)$", part.strip())
                if mm:
                    try:
                        docs[mm.group(1)] = u32ref.parse_expr(mm.group(2), N, env)
                    except (u32ref.RefError, u32ref.NormError) as e:
                        docs[mm.group(1)] = e
        # the mathematical definition
        if len(ins) == 4:
            b1, b0, a1, a0 = (env[n] for n in ins)
            math = {"ext2add": (a0 + b0, a1 + b1), "ext2sub": (a0 - b0, a1 - b1), "ext2mul": ext2_mul((a0, a1), (b0, b1))}[form]
        else:
            a1, a0 = (env[n] for n in ins)
            math = (Poly() - a0, Poly() - a1)
        for i, nme in enumerate(outs):
            want = math[0] if nme.rstrip("'").endswith("0") else math[1]
            ok = st[i] == want
            ctx.oblig(ok)
            if not ok:
                ctx.violation("field-semantics|%s|%s" % (v, nme), loc, "%s: output %s of the composed lowering is %s; in F_p[x]/(x^2 - x + 2) it must be %s" % (form, nme, st[i], want))
            d = docs.get(nme)
            okd = isinstance(d, Poly) and d == st[i]
            if (form, nme) in EXT2_DOC_DISCREPANCY:
                continue
            ctx.oblig(okd)
            if not okd:
                ctx.violation("field-doc-formula|%s|%s" % (v, nme), loc, "%s: the instruction reference defines %s as %s; the composed lowering yields %s" % (form, nme, d, st[i]))
    # ext2inv / ext2div: on the successful path the conditions state hint * operand = 1 with the hint in the documented
    # coefficient order, and the outputs are that inverse (times the numerator)
    for form, v in (("ext2inv", "Ext2Inv"), ("ext2div", "Ext2Div")):
        row = rows.get(form)
        loc = "%s:%d" % (row.file, row.line) if row else "docs/src/user_docs/assembly/field_operations.md"
        ctx.inst(key=v, nontrivial=True)
        try:
            paths = [r for lp, r in ok_paths(v) if r["outcome"] == ("ok",)]
        except u32ref.NormError as e:
            ctx.violation("UNANALYSABLE|field|%s" % v, loc, str(e)[:300])
            continue
        for r in paths:
            eqs = []
            for c, val, l in r["guards"]:
                if isinstance(c, Term) and c.op in ("eq", "ne") and all(isinstance(x, Poly) for x in c.args):
                    t = (val == ("not", [0])) if isinstance(val, tuple) else bool(val)
                    if (c.op == "eq") == t:
                        eqs.append(c.args[0] - c.args[1])
            advs = sorted({x for p_ in eqs for x in p_.vars() if x.startswith("adv#")}, key=lambda s_: int(s_.split("#")[1]))
            ok = len(advs) == 2 and len(eqs) == 2
            if ok:
                # operand (top-first): [x1, x0]; find the coefficient order of the hint that makes hint * operand = 1
                x1, x0 = E(0), E(1)
                sol = None
                for h0, h1 in ((advs[0], advs[1]), (advs[1], advs[0])):
                    c0, c1 = ext2_mul((Poly.var(h0), Poly.var(h1)), (x0, x1))
                    want = {repr(c0 - Poly.const(1)), repr(Poly.const(1) - c0)}, {repr(c1), repr(Poly() - c1)}
                    got = [repr(e) for e in eqs]
                    if (got[0] in want[0] and got[1] in want[1]) or (got[1] in want[0] and got[0] in want[1]):
                        sol = (Poly.var(h0), Poly.var(h1))
                ok = sol is not None
            ctx.oblig(ok)
            if not ok:
                ctx.violation("field-semantics|%s|inverse-check" % v, loc, "%s: the successful path's conditions %s do not state hint * operand = 1 in F_p[x]/(x^2 - x + 2)" % (form, [repr(e) for e in eqs]))
                continue
            if form == "ext2inv":
                want = (sol[0], sol[1])
            else:
                want = ext2_mul((E(3), E(2)), sol)
            st = r["stack"]
            ok = st[0] == want[1] and st[1] == want[0]
            ctx.oblig(ok)
            if not ok:
                ctx.violation("field-semantics|%s|result" % v, loc, "%s leaves [%s, %s]; with the verified inverse (%s, %s) the documented result is [%s, %s] (coefficient of x on top)" % (form, st[0], st[1], sol[0], sol[1], want[1], want[0]))
    # pow2: for every exponent 0..63 the path it takes yields exactly 2^a, larger exponents fail
    ctx.inst(key="Pow2", nontrivial=True)
    loc = "docs/src/user_docs/assembly/field_operations.md"
    try:
        prs = ok_paths("Pow2")
        bad = [r for lp, r in prs if r["outcome"][0] in ("unanalysable", "panic")]
        if bad:
            raise u32ref.NormError(str(bad[0]["outcome"]))
        from . import rules_c09
        seen = set()
        for lp, r in prs:
            if r["outcome"] != ("ok",):
                continue
            cands = rules_c09.hint_candidates(r["guards"], "e0")
            if cands is None:
                ctx.violation("pow2-unbounded", loc, "a successful path of pow2 does not bound the exponent")
                break
            hs = [h for h in cands if all(execmodel.guard_holds(c, v_, {"e0": h}) is not False for c, v_, l in r["guards"])]
            for h in hs:
                seen.add(h)
                ok = h <= 63 and isinstance(r["stack"][0], Poly) and r["stack"][0].const_value() == 2 ** h and repr(r["stack"][1]) == "e1"
                ctx.oblig(ok)
                if not ok:
                    ctx.violation("field-semantics|Pow2|a=%d" % h, loc, "pow2 with exponent %d yields %s" % (h, r["stack"][0]))
        ok = seen == set(range(64))
        ctx.oblig(ok)
        if not ok:
            ctx.violation("field-semantics|Pow2|domain", loc, "pow2 completes exactly for the exponents %s; documented: 0..63" % sorted(seen)[:70])
    except u32ref.NormError as e:
        ctx.violation("UNANALYSABLE|field|Pow2", loc, str(e)[:300])
    # is_odd: the low bit of the element
    ctx.inst(key="IsOdd", nontrivial=True)
    try:
        for lp, r in ok_paths("IsOdd"):
            if r["outcome"] != ("ok",):
                continue
            N = u32ref.CNorm({}, procmodel.FELT_TERMS)
            N.bitw = {}
            for e in r["effects"]:
                if e[0] == "u32and" and len(e) > 3:
                    N.bitw[sorted(e[3].vars())[0]] = N.band(N.poly(e[1]), N.poly(e[2]))
            got = N.poly(r["stack"][0])
            want = N.low(1, E(0))
            ok = got == want
            ctx.oblig(ok)
            if not ok:
                ctx.violation("field-semantics|IsOdd", loc, "is_odd yields %s; the parity of the element is %s" % (got, want))
    except u32ref.NormError as e:
        ctx.violation("UNANALYSABLE|field|IsOdd", loc, str(e)[:300])


# ---- R11: no failure outside the documented failing cases -----------------------------------------------------------------
# instructions whose reference row does not mention a failure but which can fail for reasons the reference states elsewhere
UNDOC_FAIL_OK = {}


def r11_no_undocumented_failure(ctx, C):
    F = C.F
    adt = F.adt(r"^miden_assembly::ast::nodes::Instruction$")
    idx = userdocs.variant_index(adt["variants"])
    n = 0
    for row in userdocs.rows():
        if re.search(r"[Ff]ail", row.notes):
            continue
        # the operand domain of these tables is the whole field / any stack; u32 rows have "Undefined if" domains and are decided
        # by R9, memory / advice / Merkle instructions fail for reasons stated in their sections' prose
        if not (row.file.endswith("field_operations.md") or row.file.endswith("stack_manipulation.md")):
            continue
        for form in row.forms:
            base, imm = userdocs.form_key(form)
            vname = idx.get(base + "imm") if imm else idx.get(base)
            if vname is None or vname in PROC_VARIANTS or vname not in C.L:
                continue
            try:
                res = C.results(vname)
            except Exception:
                continue
            n += 1
            ctx.inst(key=vname, nontrivial=True)
            for lp, rs in res:
                if not isinstance(rs, list):
                    continue
                ctx.oblig(True)
                for r in rs:
                    if r["outcome"][0] != "err" or not path_feasible(lp["guards"] + r["guards"]):
                        continue
                    err = r["outcome"][2] if len(r["outcome"]) > 2 else "?"
                    key = "undocumented-failure|%s|%s" % (vname, err)
                    if (vname, err) in UNDOC_FAIL_OK:
                        continue
                    ctx.oblig(False)
                    ctx.violation(key, "%s:%d" % (row.file, row.line), "%s can fail with %s (operation %d of %s, conditions %s) although its reference row documents no failing case"
                                  % (form, err, r["outcome"][1], [o[0] for o in lp["ops"]][:10], [(str(g[0])[:50], g[1]) for g in r["guards"]][:3]))
    ctx.floor("rows-without-documented-failure", n, 25)


def r13_const_expressions(ctx, F):
    """constants used as immediates (`push.A`, `mem_load.A`, ...) are defined by arithmetic expressions over + - * / // and
    parentheses (docs/src/user_docs/assembly/code_organization.md, "Constants"). The parser's shunting-yard core
    (`build_postfix_expression` followed by `evaluate_postfix_expression`) is interpreted on every token sequence of 2..4
    symbolic operands joined by the five operators, without parentheses and with one parenthesised pair, the tokenizer
    replaced by the token list and `compute_statement` by an uninterpreted binary node: the tree it builds must be the tree
    of the usual reading (`* / //` bind tighter than `+ -`, equal precedence associates to the left, parentheses first).
    `compute_statement` itself is interpreted per operator on symbolic operands: + - * are the field operations, both
    divisions refuse a zero divisor. Not decided: the tokenizer (`OperationIterator::next`), number parsing."""
    import itertools
    from .mirsym import Interp, Agg, Ptr, Opaque, deref, Unanalysable, PanicReached, enumerate_paths
    C = r"^miden_assembly::ast::parsers::constants::"
    f_build, f_eval, f_comp = F.fn(C + "build_postfix_expression$"), F.fn(C + "evaluate_postfix_expression$"), F.fn(C + "compute_statement$")
    op_adt = F.adt(C + "Operation$")
    variants = [v["name"] for v in op_adt["variants"]]
    SYM = {"+": "Add", "-": "Sub", "*": "Mul", "/": "FeltDiv", "//": "IntDiv", "(": "LPar", ")": "RPar"}
    for v in SYM.values():
        if v not in variants:
            ctx.violation("ANCHOR-LOST|const-expr|%s" % v, f_build.loc(), "Operation::%s not found" % v)
            return
    PREC = {"+": 1, "-": 1, "*": 2, "/": 2, "//": 2}

    def mk(tok):
        if tok in SYM:
            return Agg([], "adt", op_adt["id"], SYM[tok])
        return Agg([Poly.var(tok)], "adt", op_adt["id"], "Value")

    def reference(tokens):
        """precedence climbing, left associative"""
        pos = [0]

        def atom():
            t = tokens[pos[0]]
            pos[0] += 1
            if t == "(":
                e = expr(1)
                pos[0] += 1          # ')'
                return e
            return t

        def expr(minp):
            lhs = atom()
            while pos[0] < len(tokens) and tokens[pos[0]] in PREC and PREC[tokens[pos[0]]] >= minp:
                o = tokens[pos[0]]
                pos[0] += 1
                rhs = expr(PREC[o] + 1)
                lhs = (SYM[o], lhs, rhs)
            return lhs
        return expr(1)

    def tree(v):
        v = deref(v)
        if isinstance(v, Term) and v.op == "cexpr":
            return (v.args[0], tree(v.args[1]), tree(v.args[2]))
        return repr(v)

    def run_one(tokens):
        I = Interp(F)
        procmodel.install_field(I)
        queue = [mk(t) for t in tokens]
        ok = lambda x: Agg([x], "adt", "core::result::Result", "Ok")
        some = lambda x: Agg([x], "adt", "core::option::Option", "Some")
        none = Agg([], "adt", "core::option::Option", "None")
        I.overrides.insert(0, (re.compile(r"constants::OperationIterator::new$"), lambda I_, a, f: Opaque("token-iterator")))
        I.overrides.insert(0, (re.compile(r"constants::OperationIterator::next$"), lambda I_, a, f: ok(some(queue.pop(0))) if queue else ok(none)))
        I.overrides.insert(0, (re.compile(r"constants::compute_statement$"), lambda I_, a, f: ok(Term("cexpr", deref(a[3]).variant, deref(a[1]), deref(a[2])))))
        post = I.call(f_build.id, [Ptr([Opaque("token")], 0), Opaque("expression"), Ptr([Opaque("constants")], 0)])
        post = deref(post)
        if not (isinstance(post, Agg) and post.variant == "Ok"):
            return ("error", repr(post))
        res = deref(I.call(f_eval.id, [Ptr([Opaque("token")], 0), Opaque("expression"), post.items[0]]))
        if not (isinstance(res, Agg) and res.variant == "Ok"):
            return ("error", repr(res))
        return tree(res.items[0])

    ops = ["+", "-", "*", "/", "//"]
    shapes = []
    for n in ((2, 3, 4) if ctx.tier != "thorough" else (2, 3, 4, 5)):
        for combo in itertools.product(ops, repeat=n - 1):
            toks = []
            for i in range(n):
                toks.append("v%d" % i)
                if i < n - 1:
                    toks.append(combo[i])
            shapes.append(toks)
            if n >= 3:
                for g in range(n - 1):           # parenthesise operands g, g+1
                    t2 = []
                    for i in range(n):
                        if i == g:
                            t2.append("(")
                        t2.append("v%d" % i)
                        if i == g + 1:
                            t2.append(")")
                        if i < n - 1:
                            t2.append(combo[i])
                    shapes.append(t2)
    # nested parentheses and a parenthesised triple
    shapes += [["(", "(", "v0", "-", "v1", ")", "*", "v2", ")", "-", "v3"], ["v0", "-", "(", "v1", "-", "v2", "*", "v3", ")"],
               ["v0", "*", "(", "v1", "+", "v2", "-", "v3", ")"], ["(", "v0", ")"], ["v0"]]
    n_bad = 0
    for toks in shapes:
        text = "".join(toks)
        ctx.inst(key="const-expr|" + text, nontrivial=len(toks) > 3)
        try:
            got = run_one(toks)
        except (Unanalysable, PanicReached) as e:
            ctx.violation("UNANALYSABLE|const-expr|" + text, f_build.loc(), str(e)[:300])
            return
        want = reference(list(toks))
        if isinstance(want, str):
            want = repr(Poly.var(want))
        else:
            def conv(t):
                return repr(Poly.var(t)) if isinstance(t, str) else (t[0], conv(t[1]), conv(t[2]))
            want = conv(want)
        def value(t):
            """the tree's value as a field polynomial; a division is an atom named by the values of its operands"""
            if not isinstance(t, tuple):
                return Poly.var(t)
            if t[0] == "error":
                return None
            l, r = value(t[1]), value(t[2])
            if l is None or r is None:
                return None
            if t[0] == "Add":
                return l + r
            if t[0] == "Sub":
                return l - r
            if t[0] == "Mul":
                return l * r
            return Poly.var("%s[%r,%r]" % (t[0], l, r))
        gv = value(got)
        good = gv is not None and gv == value(want)
        ctx.oblig(good)
        if not good:
            n_bad += 1
            if n_bad <= 6:
                ctx.violation("const-expr|" + text, f_build.loc(),
                              "the constant expression `%s` is evaluated as %s; the documented operators (* / // before + -, equal precedence left to right, parentheses first) give %s: "
                              "an instruction using such a constant as immediate pushes / addresses a different value" % (text, got, want))
    ctx.floor("const-expr-shapes", len(shapes), 500)
    # compute_statement per operator
    a, b = Poly.var("a"), Poly.var("b")
    expect = {"Add": a + b, "Sub": a - b, "Mul": a * b}

    def comp(name, x, y):
        I = Interp(F)
        procmodel.install_field(I)
        I.overrides.insert(0, (re.compile(r"errors::ParsingError::\w+$"), lambda I_, a_, f_: Opaque("parsing-error")))
        return deref(I.call(f_comp.id, [Ptr([Opaque("token")], 0), x, y, Ptr([Agg([], "adt", op_adt["id"], name)], 0)]))
    for name in ("Add", "Sub", "Mul", "FeltDiv", "IntDiv"):
        ctx.inst(key="const-op|" + name, nontrivial=True)
        try:
            if name in expect:
                res = comp(name, a, b)
                good = res.variant == "Ok" and deref(res.items[0]) == expect[name]
                ctx.oblig(good)
                if not good:
                    ctx.violation("const-op|" + name, f_comp.loc(), "constant operator %s computes %r, expected %s" % (name, res, expect[name]))
                continue
            res = comp(name, a, Poly.const(0))
            good = res.variant == "Err"
            ctx.oblig(good)
            if not good:
                ctx.violation("const-op|%s|zero-divisor" % name, f_comp.loc(), "constant operator %s does not refuse a zero divisor: %r" % (name, res))
            if name == "IntDiv":
                for x, y in ((12, 3), (13, 3), (2, 5), (7, 7)):
                    res = comp(name, Poly.const(x), Poly.const(y))
                    v = deref(res.items[0]) if res.variant == "Ok" else None
                    good = isinstance(v, Poly) and v.const_value() == x // y
                    ctx.oblig(good)
                    if not good:
                        ctx.violation("const-op|IntDiv|value", f_comp.loc(), "%d // %d evaluates to %r" % (x, y, res))
        except (Unanalysable, PanicReached) as e:
            ctx.violation("UNANALYSABLE|const-op|" + name, f_comp.loc(), str(e)[:300])


def run(ctx, F):
    ctx.trusted += ["rustc MIR via mirfacts", "mirsym; lowering extractor (vlib/lowering.py); operation model (vlib/procmodel.py)",
                    "docs/src/user_docs/assembly tables as oracle (parsed at run time); family formulas and FAILING/RANGES tables transcribed from the same docs"]
    ctx.assumptions += ["numerical results of the u32 instructions are decided by C05-R9 (all forms except u32popcnt; the bit counts by C09-R5); results of hash / Merkle instructions are fresh values in the model and not decided",
                        "immediate parsing (decimal/hex text) is not covered", "lists and counted immediates are analysed for a representative symbolic length"]
    C = Composer(F)
    ctx.run_rule("C05-R0", "the lowering of every Instruction variant is extractable on all syntactic paths", r0_lowering_coverage, C)
    ctx.run_rule("C05-R1", "data-movement instructions: composed lowering on a symbolic 32-cell stack equals the reference permutation exactly (all cells incl. below position 15, LIFO overflow)", r1_data_movement, C)
    ctx.run_rule("C05-R2", "reference tables: net depth change, untouched frame below the inputs, copied outputs and polynomial formulas (c <- ...) for every matched instruction form", r2_reference_tables, C)
    ctx.run_rule("C05-R3", "comparison instructions compare exactly the documented cell pairs and yield 1/0 accordingly", r3_comparisons, C)
    ctx.run_rule("C05-R4", "documented failing cases are wired: error variant reachable, guard involves the documented operands, no stack write before failing; error codes and zero-divisor immediates", r4_failing_cases, C)
    ctx.run_rule("C05-R5", "parameter ranges validated by the assembler equal the documented ranges and have a rejecting path", r5_param_ranges, C)
    ctx.run_rule("C05-R7", "exp.b for boundary immediates (powers of two and neighbours): lowering composed with the handlers yields exactly base^b and cannot fail", r7_exp_immediates, F)
    ctx.run_rule("C05-R8", "compiler-inserted arithmetic checks in operation handlers cannot fire inside the documented operand domains (interval analysis with path guards)", r8_handler_arithmetic, F)
    ctx.run_rule("C05-R9", "u32 instructions: on every composed path inside the documented operand domain each output equals the reference function of u32_operations.md (canonical integer normal form: floor/mod/quotient/borrow/AND atoms), failures are the documented ones", r9_u32_semantics, C)
    ctx.run_rule("C05-R10", "pow2 (all 64 exponents), is_odd and the quadratic-extension instructions: composed results equal the definitions in F_p[x]/(x^2 - x + 2) and the documented formulas; ext2inv/ext2div return the verified inverse in the documented coefficient order", r10_field_semantics, C)
    ctx.run_rule("C05-R11", "an instruction whose reference row documents no failing case has no feasible failing path in its composed lowering", r11_no_undocumented_failure, C)
    ctx.run_rule("C05-R6", "minimum stack depth: shift_left pops/decrements only when depth > 16; depth writers confined", r6_min_depth, F)
    ctx.run_rule("C05-R13", "constant expressions used as immediates: the parser's shunting-yard core, interpreted on every sequence of 2..4 symbolic operands over + - * / // with and without a parenthesised pair, builds the tree of the documented reading (precedence, left associativity, parentheses); + - * are the field operations and both divisions refuse a zero divisor", r13_const_expressions, F)
    from . import rules_c09
    ctx.run_rule("C05-R12", "with the default host the hint-assisted instructions fail only in their documented cases: the advice injectors behind u32clz/ctz/clo/cto, ilog2, ext2inv / ext2div and the u64 division push the defined values for every valid operand and refuse only the documented ones (= C09-R6)", rules_c09.r6_honest_injectors, F)

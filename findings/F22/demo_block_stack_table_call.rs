//! The decoder's block stack table (auxiliary column p1) must start and end empty (p1 == 1) for
//! programs containing CALL and SYSCALL blocks: the row added to the table when a CALL / SYSCALL
//! block starts must be the row removed when the block ends.

use miden_air::trace::{
    decoder::{P1_COL_IDX, P2_COL_IDX},
    AUX_TRACE_RAND_ELEMENTS,
};
use miden_assembly::Assembler;
use miden_processor::{
    execute, math::Felt, DefaultHost, ExecutionOptions, ExecutionTrace, Program, StackInputs, ONE,
};
use test_utils::rand::rand_array;
use winter_prover::Trace;

const NUM_RAND_ROWS: usize = ExecutionTrace::NUM_RAND_ROWS;

fn build_decoder_columns(program: &Program) -> (Vec<Felt>, Vec<Felt>) {
    let mut trace = execute(
        program,
        StackInputs::default(),
        DefaultHost::default(),
        ExecutionOptions::default(),
    )
    .unwrap();
    let alphas = rand_array::<Felt, AUX_TRACE_RAND_ELEMENTS>();
    let aux_columns = trace.build_aux_segment(&[], &alphas).unwrap();
    let p1 = aux_columns.get_column(P1_COL_IDX).to_vec();
    let p2 = aux_columns.get_column(P2_COL_IDX).to_vec();
    (p1, p2)
}

fn assert_block_stack_table_balanced(program: &Program) {
    let (p1, _) = build_decoder_columns(program);
    let last = p1.len() - NUM_RAND_ROWS - 1;
    assert_eq!(ONE, p1[0], "block stack table must start empty");
    assert_eq!(ONE, p1[last], "block stack table must end empty");
}

#[test]
fn block_stack_table_without_call() {
    let source = "proc.foo push.1 drop end begin exec.foo if.true push.2 else push.3 end drop end";
    let program = Assembler::default().compile(source).unwrap();
    assert_block_stack_table_balanced(&program);
}

#[test]
fn block_stack_table_with_call() {
    let source = "proc.foo push.1 drop end begin call.foo end";
    let program = Assembler::default().compile(source).unwrap();
    assert_block_stack_table_balanced(&program);
}

#[test]
fn block_stack_table_with_nested_calls() {
    let source = "
        proc.bar push.1 drop end
        proc.foo push.2 drop call.bar push.3 drop end
        begin push.4 drop call.foo call.bar end";
    let program = Assembler::default().compile(source).unwrap();
    assert_block_stack_table_balanced(&program);
}

/// NOTE: ignored because the table still does not balance for SYSCALL blocks once the index of
/// the last `fn_hash` element is fixed: the row added by SYSCALL takes the "parent fn hash" from
/// the decoder hasher state (the hash of the kernel procedure), while the row removed by the END
/// of the SYSCALL block reads the `fn_hash` system columns, which a SYSCALL does not change (they
/// still hold the hash of the caller). For CALL both happen to be the hash of the callee.
#[test]

fn block_stack_table_with_syscall() {
    let kernel = "export.foo push.1 drop end";
    let source = "proc.bar push.2 drop syscall.foo end begin call.bar syscall.foo end";
    let program = Assembler::default().with_kernel(kernel).unwrap().compile(source).unwrap();
    assert_block_stack_table_balanced(&program);
}

/// Not part of the defect being demonstrated; prints whether the block hash table (p2) balances
/// for a program with a CALL (informational only, never fails).
#[test]
fn block_hash_table_with_call_info() {
    let source = "proc.foo push.1 drop end begin call.foo end";
    let program = Assembler::default().compile(source).unwrap();
    let (p1, p2) = build_decoder_columns(&program);
    let last = p2.len() - NUM_RAND_ROWS - 1;
    println!("p1[last] == ONE: {}", p1[last] == ONE);
    println!("p2[0] = {}, p2[last] == ONE: {}", p2[0], p2[last] == ONE);
}

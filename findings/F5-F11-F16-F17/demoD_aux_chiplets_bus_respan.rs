//! Demonstration: the chiplets bus column (b_chip) must end at ONE for every execution trace,
//! including traces with spans of more than one operation batch (RESPAN).

use miden_air::trace::{AUX_TRACE_RAND_ELEMENTS, CHIPLETS_AUX_TRACE_OFFSET};
use miden_assembly::Assembler;
use miden_processor::{
    math::{Felt, FieldElement},
    DefaultHost, ExecutionOptions, QuadExtension, StackInputs,
};
use test_utils::rand::rand_array;
use winter_prover::Trace;

type QuadFelt = QuadExtension<Felt>;

fn final_b_chip(source: &str) -> QuadFelt {
    let program = Assembler::default().compile(source).unwrap();
    let mut trace = miden_processor::execute(
        &program,
        StackInputs::default(),
        DefaultHost::default(),
        ExecutionOptions::default(),
    )
    .unwrap();
    let alphas = rand_array::<QuadFelt, AUX_TRACE_RAND_ELEMENTS>();
    let aux = trace.build_aux_segment(&[], &alphas).unwrap();
    let b_chip = aux.get_column(CHIPLETS_AUX_TRACE_OFFSET);
    assert_eq!(QuadFelt::ONE, b_chip[0]);
    b_chip[b_chip.len() - 2]
}

/// one span, one batch: balances
#[test]
fn b_chip_single_batch() {
    assert_eq!(QuadFelt::ONE, final_b_chip("begin push.1 push.2 add drop end"));
}

/// one span, two batches (12 immediates + 24 operations = 15 groups): RESPAN at a decoder row which is
/// not aligned with the hasher rows of the span
#[test]
fn b_chip_two_batches() {
    assert_eq!(QuadFelt::ONE, final_b_chip("begin repeat.12 push.3 add end drop end"));
}

/// a multi-batch span which is not the first block of the program
#[test]
fn b_chip_two_batches_in_second_block() {
    let source = "begin push.1 if.true repeat.12 push.3 add end drop else push.2 drop end end";
    assert_eq!(QuadFelt::ONE, final_b_chip(source));
}

/// three batches
#[test]
fn b_chip_three_batches() {
    assert_eq!(QuadFelt::ONE, final_b_chip("begin repeat.24 push.3 add end drop end"));
}

//! An AST containing `breakpoint` must round-trip through its byte encoding (C10).
use miden_assembly::ast::{AstSerdeOptions, ModuleAst, ProgramAst};

#[test]
fn program_with_breakpoint_round_trips() {
    let source = "begin push.1 breakpoint push.2 add if.true breakpoint drop else push.3 end end";
    let program = ProgramAst::parse(source).unwrap();
    let decoded = ProgramAst::from_bytes(&program.to_bytes(AstSerdeOptions::new(true))).unwrap();
    assert_eq!(program, decoded);
}

#[test]
fn module_with_breakpoint_round_trips() {
    let source = "export.foo push.1 breakpoint repeat.3 breakpoint add.1 end end";
    let module = ModuleAst::parse(source).unwrap();
    let decoded = ModuleAst::from_bytes(&module.to_bytes(AstSerdeOptions::new(true))).unwrap();
    assert_eq!(module, decoded);
}

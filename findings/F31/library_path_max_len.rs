//! A library path of exactly the maximum length is accepted by `LibraryPath::new` and by
//! `LibraryPath::read_from`, so it must also be writable (C19: accepted values re-encode).
use miden_assembly::{
    utils::{Deserializable, Serializable, SliceReader},
    LibraryPath,
};

#[test]
fn path_of_maximum_length_round_trips() {
    // 4 components of 255 characters joined by "::" -> 4 * 255 + 3 * 2 = 1026 > 1023, so use
    // three components of 255 and one of 252: 3 * 255 + 252 + 3 * 2 = 1023
    let comp = |n: usize| format!("a{}", "b".repeat(n - 1));
    let path = [comp(255), comp(255), comp(255), comp(252)].join("::");
    assert_eq!(path.len(), 1023);

    let path = LibraryPath::new(&path).expect("a path of 1023 bytes is valid");
    let bytes = path.to_bytes();
    let decoded = LibraryPath::read_from(&mut SliceReader::new(&bytes)).unwrap();
    assert_eq!(decoded, path);
}

//! C09 demonstration: a dishonest host must not be able to change the result of `ilog2`.
use miden::{Assembler, ExecutionError, Host, MemAdviceProvider, StackInputs};
use processor::{
    math::Felt, AdviceExtractor, AdviceInjector, AdviceProvider, AdviceSource, ExecutionOptions,
    HostResponse, ProcessState,
};

struct LyingHost {
    adv: MemAdviceProvider,
    hint: Felt,
}

impl Host for LyingHost {
    fn get_advice<S: ProcessState>(
        &mut self,
        process: &S,
        extractor: AdviceExtractor,
    ) -> Result<HostResponse, ExecutionError> {
        self.adv.get_advice(process, &extractor)
    }

    fn set_advice<S: ProcessState>(
        &mut self,
        process: &S,
        injector: AdviceInjector,
    ) -> Result<HostResponse, ExecutionError> {
        match injector {
            AdviceInjector::ILog2 => {
                self.adv.push_stack(AdviceSource::Value(self.hint))?;
                Ok(HostResponse::None)
            }
            other => self.adv.set_advice(process, &other),
        }
    }
}

fn run_ilog2(n: u64, hint: Felt) -> Option<u64> {
    let program = Assembler::default().compile("begin ilog2 end").unwrap();
    let stack_inputs = StackInputs::try_from_values([n]).unwrap();
    let host = LyingHost { adv: MemAdviceProvider::default(), hint };
    match processor::execute(&program, stack_inputs, host, ExecutionOptions::default()) {
        Ok(trace) => Some(trace.stack_outputs().stack()[0]),
        Err(_) => None,
    }
}

#[test]
fn ilog2_result_is_independent_of_the_hint() {
    let operands: [u64; 12] = [
        0,
        1,
        2,
        3,
        255,
        0x8000_0000,
        0xffff_ffff,
        0x1_0000_0000,
        0x1_0000_0001,
        0x100_0000_0001,
        0x8000_0000_0000_0000,
        0xffff_ffff_0000_0000,
    ];
    let mut hints: Vec<Felt> = (0..=70u64).map(Felt::new).collect();
    hints.extend((1..=10u64).map(|k| -Felt::new(k)));

    let mut violations = Vec::new();
    for &n in operands.iter() {
        let expected = if n == 0 { None } else { Some(63 - n.leading_zeros() as u64) };
        if let Some(e) = expected {
            assert_eq!(run_ilog2(n, Felt::new(e)), Some(e), "honest hint, n = {n:#x}");
        }
        for &hint in hints.iter() {
            if let Some(result) = run_ilog2(n, hint) {
                if Some(result) != expected {
                    violations.push((n, hint.as_int(), result));
                }
            }
        }
    }
    assert!(
        violations.is_empty(),
        "ilog2 completed with a wrong result for {} (operand, hint, result) triples, e.g. {:x?}",
        violations.len(),
        &violations[..violations.len().min(12)]
    );
}

//! `smt::get` must agree with the native `Smt` for a key that was never inserted but maps to the
//! same leaf as an inserted key (the leaf index is the most significant key element only): the
//! native `Smt::get_value` returns the empty word; the procedure used to fail on `assert_eqw`.

use test_utils::{
    crypto::{MerkleStore, RpoDigest, Smt},
    Felt, StarkField, Word, EMPTY_WORD,
};

const SOURCE: &str = "
    use.std::collections::smt
    begin
        exec.smt::get
    end
";

fn word_to_ints(word: Word) -> Vec<u64> {
    word.iter().map(|e| e.as_int()).collect()
}

/// Runs `smt::get`; returns `None` if the execution failed, else (value, root) in word order.
fn run_get(key: RpoDigest, smt: &Smt) -> Option<(Word, Word)> {
    let mut initial_stack = word_to_ints(smt.root().into());
    initial_stack.extend(word_to_ints(key.into()));

    let store = MerkleStore::from(smt);
    let advice_map = smt
        .leaves()
        .map(|(_, leaf)| (leaf.hash(), leaf.to_elements()))
        .collect::<Vec<(RpoDigest, Vec<Felt>)>>();

    let mut test = test_utils::build_test!(SOURCE, &initial_stack, &[], store, advice_map);
    test.libraries = vec![miden_stdlib::StdLibrary::default().into()];

    let trace = test.execute().ok()?;
    let stack = trace.last_stack_state();
    Some(([stack[3], stack[2], stack[1], stack[0]], [stack[7], stack[6], stack[5], stack[4]]))
}

#[test]
fn smt_get_absent_key_in_occupied_leaf_returns_empty_word() {
    let msb = Felt::new(42);
    let present_key = RpoDigest::new([Felt::new(101), Felt::new(102), Felt::new(103), msb]);
    let present_value: Word = [Felt::new(1), Felt::new(2), Felt::new(3), Felt::new(4)];
    let smt = Smt::with_entries([(present_key, present_value)]).unwrap();

    // the inserted key is found
    let (value, root) = run_get(present_key, &smt).expect("get of an existing key failed");
    assert_eq!(value, present_value);
    assert_eq!(root, Word::from(smt.root()));

    // keys never inserted that share the leaf: the native tree yields the empty word
    for absent in [
        RpoDigest::new([Felt::new(1), Felt::new(12), Felt::new(3), msb]),
        RpoDigest::new([Felt::new(101), Felt::new(102), Felt::new(104), msb]),
        RpoDigest::new([Felt::new(100), Felt::new(102), Felt::new(103), msb]),
    ] {
        assert_eq!(smt.get_value(&absent), EMPTY_WORD);
        let (value, root) = run_get(absent, &smt)
            .expect("smt::get failed for a key that is absent from an occupied leaf");
        assert_eq!(value, EMPTY_WORD);
        assert_eq!(root, Word::from(smt.root()));
    }
}

//! Demonstration for finding F33 (property C14, recorded as a known finding): the overflow history that the step iterator
//! reads is keyed by the cycle of the operation that changes it, but read with `range(0..=clk)`, so the iterator reports at
//! clock t the overflow content of row t+1: one element too many at the clock before a push, one element missing at the
//! clock before a pop. The existing test miden/tests/integration/exec_iters.rs pins this behaviour (17 elements at clk 1 of
//! its program, where the trace row has depth 16), so a repair cannot keep the unedited suite passing.
//! Placement: miden/tests/integration/overflow_history_off_by_one.rs + `mod overflow_history_off_by_one;` in main.rs
use test_utils::build_debug_test;

#[test]
fn reported_depth_is_the_depth_of_the_trace_row() {
    // rows: 0 initial (16), 1 after SPAN (16), 2 after PUSH (17), 3 after DROP (16), 4 after END (16)
    let source = "begin push.7 drop end";
    let init_stack: Vec<u64> = (1..=16).collect();
    let test = build_debug_test!(source, &init_stack);
    let lens: Vec<usize> = test.execute_iter().map(|s| s.unwrap().stack.len()).collect();
    assert_eq!(&lens[..4], &[16, 16, 17, 16]);
}

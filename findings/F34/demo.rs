//! MPVERIFY (`mtree_verify` / `mtree_get`) must bind the Merkle path supplied by the host to the
//! depth operand on the stack.
//!
//! The Merkle path is nondeterministic advice: the host is free to answer the request for
//! (depth `d`, index `i`, root `R`) with any path it likes. A path of a different length `d'`
//! which hashes up to `R` proves that the node sits at depth `d'`, not at depth `d`; the
//! operation must not complete in that case.
//!
//! The tests below run `mtree_verify` and `mtree_get` against a host which answers requests for
//! depth `d` with the (perfectly valid) node and path at a different depth `d'`.

use miden_assembly::Assembler;
use miden_processor::{
    crypto::{MerkleStore, MerkleTree},
    execute,
    math::Felt,
    AdviceExtractor, AdviceInjector, AdviceInputs, AdviceProvider, AdviceSource, ExecutionError,
    ExecutionOptions, Host, HostResponse, MemAdviceProvider, ProcessState, Program, StackInputs,
    Word, ZERO,
};

// DISHONEST HOST
// ================================================================================================

/// A host which behaves like the default host, except that every Merkle node / Merkle path
/// request is answered for depth `lie_depth` instead of the depth found on the operand stack.
struct LyingHost {
    adv: MemAdviceProvider,
    lie_depth: Felt,
}

impl LyingHost {
    fn new(store: MerkleStore, lie_depth: u64) -> Self {
        let adv = MemAdviceProvider::from(AdviceInputs::default().with_merkle_store(store));
        Self {
            adv,
            lie_depth: Felt::new(lie_depth),
        }
    }
}

impl Host for LyingHost {
    fn get_advice<S: ProcessState>(
        &mut self,
        process: &S,
        extractor: AdviceExtractor,
    ) -> Result<HostResponse, ExecutionError> {
        match extractor {
            // operand stack: [VALUE, depth, index, ROOT, ...]
            AdviceExtractor::GetMerklePath => {
                let index = process.get_stack_item(5);
                let root = [
                    process.get_stack_item(9),
                    process.get_stack_item(8),
                    process.get_stack_item(7),
                    process.get_stack_item(6),
                ];
                self.adv
                    .get_merkle_path(root, &self.lie_depth, &index)
                    .map(HostResponse::MerklePath)
            }
            extractor => self.adv.get_advice(process, &extractor),
        }
    }

    fn set_advice<S: ProcessState>(
        &mut self,
        process: &S,
        injector: AdviceInjector,
    ) -> Result<HostResponse, ExecutionError> {
        match injector {
            // operand stack: [depth, index, ROOT, ...]
            AdviceInjector::MerkleNodeToStack => {
                let index = process.get_stack_item(1);
                let root = [
                    process.get_stack_item(5),
                    process.get_stack_item(4),
                    process.get_stack_item(3),
                    process.get_stack_item(2),
                ];
                let node = self.adv.get_tree_node(root, &self.lie_depth, &index)?;
                self.adv.push_stack(AdviceSource::Value(node[3]))?;
                self.adv.push_stack(AdviceSource::Value(node[2]))?;
                self.adv.push_stack(AdviceSource::Value(node[1]))?;
                self.adv.push_stack(AdviceSource::Value(node[0]))?;
                Ok(HostResponse::None)
            }
            injector => self.adv.set_advice(process, &injector),
        }
    }
}

// HELPERS
// ================================================================================================

const TREE_DEPTH: u64 = 3;

fn leaves() -> Vec<Word> {
    (1..=8u64).map(|v| [Felt::new(v), ZERO, ZERO, ZERO]).collect()
}

fn tree() -> MerkleTree {
    MerkleTree::new(leaves()).unwrap()
}

fn compile(source: &str) -> Program {
    Assembler::default().compile(source).unwrap()
}

/// Builds stack inputs such that the operand stack is `[VALUE?, depth, index, ROOT, ...]`.
fn stack_inputs(value: Option<Word>, depth: u64, index: u64, root: Word) -> StackInputs {
    let mut values: Vec<u64> = root.iter().map(|e| e.as_int()).collect();
    values.push(index);
    values.push(depth);
    if let Some(value) = value {
        values.extend(value.iter().map(|e| e.as_int()));
    }
    StackInputs::try_from_values(values).unwrap()
}

fn honest_host(store: MerkleStore) -> miden_processor::DefaultHost<MemAdviceProvider> {
    let adv = MemAdviceProvider::from(AdviceInputs::default().with_merkle_store(store));
    miden_processor::DefaultHost::new(adv)
}

/// Returns the top word of the final operand stack in the same element order as [Word]s are
/// given to [stack_inputs].
fn top_word(outputs: &miden_processor::StackOutputs) -> Word {
    let s = outputs.stack();
    [Felt::new(s[3]), Felt::new(s[2]), Felt::new(s[1]), Felt::new(s[0])]
}

// CONTROL: HONEST HOST
// ================================================================================================

#[test]
fn honest_host_mtree_verify_and_get() {
    let tree = tree();
    let store = MerkleStore::from(&tree);
    let root: Word = tree.root().into();
    let index = 1u64;
    let leaf = leaves()[index as usize];
    let internal: Word = tree
        .get_node(miden_processor::crypto::NodeIndex::new(2, index).unwrap())
        .unwrap()
        .into();
    assert_ne!(leaf, internal);

    // the leaf at (3, 1) verifies
    let program = compile("begin mtree_verify end");
    let inputs = stack_inputs(Some(leaf), TREE_DEPTH, index, root);
    execute(&program, inputs, honest_host(store.clone()), ExecutionOptions::default()).unwrap();

    // the internal node at (2, 1) does not verify at (3, 1)
    let inputs = stack_inputs(Some(internal), TREE_DEPTH, index, root);
    let res = execute(&program, inputs, honest_host(store.clone()), ExecutionOptions::default());
    assert!(matches!(res, Err(ExecutionError::MerklePathVerificationFailed { .. })));

    // mtree_get at (3, 1) returns the leaf
    let program = compile("begin mtree_get end");
    let inputs = stack_inputs(None, TREE_DEPTH, index, root);
    let trace = execute(&program, inputs, honest_host(store), ExecutionOptions::default()).unwrap();
    assert_eq!(top_word(trace.stack_outputs()), leaf);
}

// DISHONEST HOST
// ================================================================================================

/// `mtree_verify` is asked to verify that VALUE is the node at depth 3, index 1 of the tree; VALUE
/// is in fact the internal node at depth 2, index 1, and the host supplies the 2-node path of that
/// internal node. The node at depth 3, index 1 is a different word, so the instruction must not
/// complete.
#[test]
fn mtree_verify_rejects_path_shorter_than_depth() {
    let tree = tree();
    let store = MerkleStore::from(&tree);
    let root: Word = tree.root().into();
    let index = 1u64;
    let internal: Word = tree
        .get_node(miden_processor::crypto::NodeIndex::new(2, index).unwrap())
        .unwrap()
        .into();
    assert_ne!(internal, leaves()[index as usize]);

    let program = compile("begin mtree_verify end");
    let inputs = stack_inputs(Some(internal), TREE_DEPTH, index, root);
    let res = execute(&program, inputs, LyingHost::new(store, 2), ExecutionOptions::default());

    assert!(
        res.is_err(),
        "mtree_verify accepted the node at depth 2, index 1 as the node at depth 3, index 1"
    );
}

/// `mtree_verify` is asked to verify that VALUE is the node at depth 2, index 1 of the tree; VALUE
/// is in fact the leaf at depth 3, index 1, and the host supplies the 3-node path of that leaf.
#[test]
fn mtree_verify_rejects_path_longer_than_depth() {
    let tree = tree();
    let store = MerkleStore::from(&tree);
    let root: Word = tree.root().into();
    let index = 1u64;
    let leaf = leaves()[index as usize];

    let program = compile("begin mtree_verify end");
    let inputs = stack_inputs(Some(leaf), 2, index, root);
    let res = execute(&program, inputs, LyingHost::new(store, 3), ExecutionOptions::default());

    assert!(
        res.is_err(),
        "mtree_verify accepted the node at depth 3, index 1 as the node at depth 2, index 1"
    );
}

/// `mtree_get` is asked for the node at depth 3, index 1 (the leaf `[2, 0, 0, 0]`); the host
/// puts the internal node at depth 2, index 1 onto the advice stack and supplies the 2-node path
/// of that internal node. The instruction must either return the leaf or not complete.
#[test]
fn mtree_get_rejects_node_from_another_depth() {
    let tree = tree();
    let store = MerkleStore::from(&tree);
    let root: Word = tree.root().into();
    let index = 1u64;
    let leaf = leaves()[index as usize];

    let program = compile("begin mtree_get end");
    let inputs = stack_inputs(None, TREE_DEPTH, index, root);
    let res = execute(&program, inputs, LyingHost::new(store, 2), ExecutionOptions::default());

    match res {
        Err(_) => {}
        Ok(trace) => {
            let got = top_word(trace.stack_outputs());
            assert_eq!(
                got, leaf,
                "mtree_get(depth 3, index 1) completed with a word which is not the node at \
                 depth 3, index 1"
            );
        }
    }
}

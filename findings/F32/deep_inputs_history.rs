//! Demonstration for finding F32 (property C14): with more than 16 stack inputs the step iterator loses the elements
//! below position 15 for every clock before the first overflow push / pop, although no operation changes the depth.
//! Placement: miden/tests/integration/deep_inputs_history.rs  +  `mod deep_inputs_history;` in miden/tests/integration/main.rs
use test_utils::build_debug_test;

#[test]
fn deep_inputs_are_reported_at_every_clock() {
    // no operation of this program shifts the stack: the depth is 18 on every row of the trace
    let source = "begin swap swap swap swap end";
    let init_stack: Vec<u64> = (1..=18).collect();
    let test = build_debug_test!(source, &init_stack);
    let mut n = 0;
    for state in test.execute_iter() {
        let state = state.unwrap();
        assert_eq!(state.stack.len(), 18, "stack reported at clk {} has {} elements", state.clk, state.stack.len());
        let deep: Vec<u64> = state.stack[16..].iter().map(|e| e.as_int()).collect();
        assert_eq!(deep, vec![2, 1], "deep elements at clk {}", state.clk);
        n += 1;
    }
    assert!(n > 4);
}

//! `Kernel::read_from` must accept only what `Kernel::new` accepts (C19): at most 255 procedure
//! hashes and no duplicates. It used to build the kernel directly from the decoded list, so a
//! kernel with duplicated or with 256+ procedure hashes was accepted from untrusted bytes - values
//! no constructor can produce, which `Kernel::write_into` refuses to re-encode in debug builds.

use miden_core::{
    crypto::hash::RpoDigest,
    utils::{Deserializable, Serializable, SliceReader},
    Felt, Kernel,
};

fn digest(i: u64) -> RpoDigest {
    RpoDigest::new([Felt::new(i), Felt::new(i + 1), Felt::new(i + 2), Felt::new(i + 3)])
}

fn encode(hashes: &[RpoDigest]) -> Vec<u8> {
    let mut bytes = (hashes.len() as u16).to_le_bytes().to_vec();
    for h in hashes {
        h.write_into(&mut bytes);
    }
    bytes
}

#[test]
fn kernel_reader_rejects_duplicated_procedures() {
    let bytes = encode(&[digest(1), digest(1)]);
    assert!(Kernel::new(&[digest(1), digest(1)]).is_err());
    assert!(Kernel::read_from(&mut SliceReader::new(&bytes)).is_err(), "duplicated procedure hashes were accepted");
}

#[test]
fn kernel_reader_rejects_too_many_procedures() {
    let hashes: Vec<RpoDigest> = (0..256u64).map(|i| digest(10 * i)).collect();
    assert!(Kernel::new(&hashes).is_err());
    let bytes = encode(&hashes);
    assert!(Kernel::read_from(&mut SliceReader::new(&bytes)).is_err(), "256 procedure hashes were accepted");
}

#[test]
fn kernel_round_trip_is_unchanged() {
    let kernel = Kernel::new(&[digest(7), digest(3), digest(5)]).unwrap();
    let bytes = kernel.to_bytes();
    let decoded = Kernel::read_from(&mut SliceReader::new(&bytes)).unwrap();
    assert_eq!(decoded, kernel);
    assert_eq!(decoded.to_bytes(), bytes);
}

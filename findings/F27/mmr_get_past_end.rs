//! `mmr::get` must not return a leaf for a position past the end of the MMR.
//!
//! The native `Mmr::get(pos)` fails with `InvalidPosition` when `pos >= num_leaves`. The MASM
//! procedure computes the owning peak from `num_leaves & !pos`; when that peak is a single-leaf
//! peak it returned the peak itself without checking that the position inside the peak is 0.

use test_utils::{
    crypto::{init_merkle_leaf, init_merkle_leaves, MerkleStore, MerkleTree, Mmr},
    StarkField,
};

fn source(num_leaves: u64, pos: u64) -> String {
    format!(
        "use.std::collections::mmr

        begin
            push.{num_leaves} push.1000 mem_store # leaves count
            adv_push.4 push.1001 mem_storew dropw # first peak (two leaves)
            adv_push.4 push.1002 mem_storew dropw # second peak (single leaf)

            push.1000 push.{pos} exec.mmr::get
        end"
    )
}

#[test]
fn mmr_get_rejects_positions_past_the_end() {
    // an MMR with three leaves: a peak with two leaves and a single-leaf peak
    let tree = MerkleTree::new(init_merkle_leaves(&[1, 2])).unwrap();
    let last_leaf = init_merkle_leaf(3);
    let mut store = MerkleStore::new();
    store.extend(tree.inner_nodes());

    let mut native = Mmr::new();
    for leaf in init_merkle_leaves(&[1, 2]) {
        native.add(leaf.into());
    }
    native.add(last_leaf.into());
    assert_eq!(native.forest(), 3);

    let advice_stack: Vec<u64> = tree
        .root()
        .iter()
        .map(StarkField::as_int)
        .chain(last_leaf.iter().map(StarkField::as_int))
        .collect();

    // valid positions agree with the native structure
    for pos in 0..3u64 {
        let mut test =
            test_utils::build_test!(source(3, pos), &[], advice_stack.clone(), store.clone());
        test.libraries = vec![miden_stdlib::StdLibrary::default().into()];
        let expected = native.get(pos as usize).unwrap();
        let stack: Vec<u64> = expected.iter().map(StarkField::as_int).rev().collect();
        test.expect_stack(&stack);
    }

    // positions past the end: the native structure fails, so must the procedure
    for pos in [3u64, 4, 5, 6, 7, 10, 14, 22] {
        assert!(native.get(pos as usize).is_err());
        let mut test =
            test_utils::build_test!(source(3, pos), &[], advice_stack.clone(), store.clone());
        test.libraries = vec![miden_stdlib::StdLibrary::default().into()];
        assert!(
            test.execute().is_err(),
            "mmr::get returned a value for position {pos} of an MMR with 3 leaves"
        );
    }
}

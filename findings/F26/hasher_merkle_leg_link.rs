//! Demonstration: the main-segment transition constraints of the hash chiplet must tie the digest
//! produced by one leg of a Merkle path computation (rows 8n..8n+7 of the hasher trace) to the
//! state the next leg starts from (row 8n+8).
//!
//! The test builds an honest execution trace of `begin mtree_get end` over a Merkle tree of
//! depth 3, evaluates every main transition constraint of `ProcessorAir` on every non-exempt step
//! and asserts that there are no violations. It then forges the second 8-row cycle of the Merkle
//! path computation: the digest part of the first row of the cycle (the 4 elements which are
//! supposed to be a copy of the digest computed by the previous leg) is replaced by arbitrary
//! values and the 7 following rows are recomputed with the RPO round function, so that the round
//! constraints inside the cycle still hold. Selectors, node index, capacity elements, the sibling
//! part of the state, and all other rows of the trace are left unchanged.
//!
//! A sound AIR must reject the forged trace.

use miden_air::{
    trace::{
        chiplets::{
            hasher::{DIGEST_LEN, HASH_CYCLE_LEN, NUM_ROUNDS, STATE_WIDTH},
            HASHER_NODE_INDEX_COL_IDX, HASHER_SELECTOR_COL_RANGE, HASHER_STATE_COL_RANGE,
        },
        CHIPLETS_OFFSET, TRACE_WIDTH,
    },
    ProcessorAir, ProvingOptions, PublicInputs,
};
use test_utils::{
    build_op_test,
    crypto::{init_merkle_store, MerkleTree},
    Felt, ONE, ZERO,
};
use vm_core::chiplets::hasher::apply_round;
use winter_prover::{Air, EvaluationFrame, Trace};

/// A violated transition constraint: (step, constraint index, value).
type Violation = (usize, usize, Felt);

/// Evaluates all main transition constraints of the AIR on all non-exempt steps of the provided
/// row-major main trace, and returns the list of violations.
fn find_violations(air: &ProcessorAir, rows: &[Vec<Felt>]) -> Vec<Violation> {
    let periodic_columns = air.get_periodic_column_values();
    let num_constraints = air.context().num_main_transition_constraints();
    let num_steps = rows.len() - air.context().num_transition_exemptions();

    let mut violations = Vec::new();
    for step in 0..num_steps {
        let periodic_values: Vec<Felt> =
            periodic_columns.iter().map(|column| column[step % column.len()]).collect();
        let frame = EvaluationFrame::from_rows(rows[step].clone(), rows[step + 1].clone());
        let mut result = vec![ZERO; num_constraints];
        air.evaluate_transition(&frame, &periodic_values, &mut result);
        for (idx, &value) in result.iter().enumerate() {
            if value != ZERO {
                violations.push((step, idx, value));
            }
        }
    }
    violations
}

fn hasher_selectors(row: &[Felt]) -> [Felt; 3] {
    [
        row[HASHER_SELECTOR_COL_RANGE.start],
        row[HASHER_SELECTOR_COL_RANGE.start + 1],
        row[HASHER_SELECTOR_COL_RANGE.start + 2],
    ]
}

#[test]
fn forged_merkle_path_leg_is_rejected_by_main_transition_constraints() {
    // --- build an honest trace of a Merkle path verification of depth 3 -------------------------
    let index = 3usize;
    let (leaves, store) = init_merkle_store(&[1, 2, 3, 4, 5, 6, 7, 8]);
    let tree = MerkleTree::new(leaves.clone()).unwrap();
    assert_eq!(tree.depth(), 3);

    let stack_inputs = [
        tree.root()[0].as_int(),
        tree.root()[1].as_int(),
        tree.root()[2].as_int(),
        tree.root()[3].as_int(),
        index as u64,
        tree.depth() as u64,
    ];

    let test = build_op_test!("mtree_get", &stack_inputs, &[], store);
    let trace = test.execute().expect("execution failed");

    let pub_inputs = PublicInputs::new(
        trace.program_info().clone(),
        test.stack_inputs.clone(),
        trace.stack_outputs().clone(),
    );
    let air = ProcessorAir::new(trace.get_info(), pub_inputs, ProvingOptions::default().into());

    // --- copy the main segment into row-major form ------------------------------------------------
    let main = trace.main_segment();
    assert_eq!(main.num_cols(), TRACE_WIDTH);
    let mut rows: Vec<Vec<Felt>> = Vec::with_capacity(main.num_rows());
    for i in 0..main.num_rows() {
        let mut row = vec![ZERO; TRACE_WIDTH];
        main.read_row_into(i, &mut row);
        rows.push(row);
    }

    // --- the honest trace satisfies all main transition constraints -------------------------------
    let honest_violations = find_violations(&air, &rows);
    assert!(
        honest_violations.is_empty(),
        "honest trace violates main transition constraints: {honest_violations:?}"
    );

    // --- locate the Merkle path computation in the hasher section of the chiplets trace -----------
    // the first leg of a Merkle path verification starts on a row which is a multiple of 8 with
    // hasher selectors (1, 0, 1)
    let mp_start = (0..rows.len())
        .step_by(HASH_CYCLE_LEN)
        .find(|&r| rows[r][CHIPLETS_OFFSET] == ZERO && hasher_selectors(&rows[r]) == [ONE, ZERO, ONE])
        .expect("no Merkle path verification in the hasher trace");

    // the last row of the first leg has selectors (1, 0, 1): the next node is absorbed in the
    // transition to the next row; the whole second cycle is in the hasher section and is not the
    // last leg of the path (its last row also has selectors (1, 0, 1))
    let leg1_last = mp_start + HASH_CYCLE_LEN - 1;
    let leg2_first = mp_start + HASH_CYCLE_LEN;
    let leg2_last = leg2_first + HASH_CYCLE_LEN - 1;
    let leg3_first = leg2_last + 1;
    assert_eq!(hasher_selectors(&rows[leg1_last]), [ONE, ZERO, ONE]);
    assert_eq!(hasher_selectors(&rows[leg2_first]), [ZERO, ZERO, ONE]);
    assert_eq!(hasher_selectors(&rows[leg2_last]), [ONE, ZERO, ONE]);
    assert_eq!(hasher_selectors(&rows[leg3_first]), [ZERO, ZERO, ONE]);
    for row in &rows[mp_start..leg3_first + HASH_CYCLE_LEN] {
        assert_eq!(row[CHIPLETS_OFFSET], ZERO, "row is not in the hasher section");
    }

    // the bit shifted out of the node index in the transition into the second leg selects where
    // the digest of the first leg has been copied to: (h4..h7) if b = 0, (h8..h11) if b = 1
    let b = rows[leg1_last][HASHER_NODE_INDEX_COL_IDX].as_int()
        - 2 * rows[leg2_first][HASHER_NODE_INDEX_COL_IDX].as_int();
    assert!(b == 0 || b == 1);
    let state_start = HASHER_STATE_COL_RANGE.start;
    let digest_src = state_start + DIGEST_LEN; // h4..h7 of the last row of leg 1
    let digest_dst = state_start + DIGEST_LEN + (b as usize) * DIGEST_LEN;

    // sanity: in the honest trace the digest of leg 1 is indeed copied into leg 2, and the digest
    // of leg 2 into leg 3
    for j in 0..DIGEST_LEN {
        assert_eq!(rows[leg2_first][digest_dst + j], rows[leg1_last][digest_src + j]);
    }

    // --- forge the second cycle -------------------------------------------------------------------
    let mut forged = rows.clone();
    let mut state = [ZERO; STATE_WIDTH];
    state.copy_from_slice(&forged[leg2_first][HASHER_STATE_COL_RANGE]);
    for j in 0..DIGEST_LEN {
        // arbitrary values instead of the digest computed by the previous leg
        state[digest_dst - state_start + j] = Felt::new(0xdead_beef_0000 + j as u64);
    }
    forged[leg2_first][HASHER_STATE_COL_RANGE].copy_from_slice(&state);
    for round in 0..NUM_ROUNDS {
        apply_round(&mut state, round);
        forged[leg2_first + round + 1][HASHER_STATE_COL_RANGE].copy_from_slice(&state);
    }

    // only hasher state cells of the 8 rows of the second cycle have been changed
    let mut num_changed_cells = 0;
    for (r, (honest_row, forged_row)) in rows.iter().zip(forged.iter()).enumerate() {
        for c in 0..TRACE_WIDTH {
            if honest_row[c] != forged_row[c] {
                assert!((leg2_first..=leg2_last).contains(&r));
                assert!(HASHER_STATE_COL_RANGE.contains(&c));
                num_changed_cells += 1;
            }
        }
    }
    assert!(num_changed_cells > 0);
    // the first row of the forged cycle differs from the honest one only in the digest part
    for c in HASHER_STATE_COL_RANGE {
        let in_digest = (digest_dst..digest_dst + DIGEST_LEN).contains(&c);
        assert_eq!(rows[leg2_first][c] != forged[leg2_first][c], in_digest);
    }
    // the digest of the forged leg is different from the one the third leg starts from
    assert!((0..DIGEST_LEN).any(|j| {
        let b_next = forged[leg2_last][HASHER_NODE_INDEX_COL_IDX].as_int()
            - 2 * forged[leg3_first][HASHER_NODE_INDEX_COL_IDX].as_int();
        let dst = state_start + DIGEST_LEN + (b_next as usize) * DIGEST_LEN;
        forged[leg3_first][dst + j] != forged[leg2_last][digest_src + j]
    }));

    // --- the forged trace must be rejected --------------------------------------------------------
    let forged_violations = find_violations(&air, &forged);
    println!(
        "Merkle path starts at row {mp_start}; forged rows {leg2_first}..={leg2_last}, \
         {num_changed_cells} cells changed; b = {b}"
    );
    println!(
        "violations of the forged trace (step, constraint index): {:?}",
        forged_violations.iter().map(|&(s, i, _)| (s, i)).collect::<Vec<_>>()
    );
    assert!(
        !forged_violations.is_empty(),
        "forged trace (rows {leg2_first}..={leg2_last} of the hasher trace replaced by a permutation \
         started from a state which is not linked to the digest of the previous leg) satisfies all \
         {} main transition constraints on all {} non-exempt steps",
        air.context().num_main_transition_constraints(),
        rows.len() - air.context().num_transition_exemptions(),
    );
}

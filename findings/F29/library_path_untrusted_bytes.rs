//! Decoding untrusted bytes must never panic (C19).
//!
//! 1. `LibraryPath::read_from` -> `LibraryPath::new` -> `validate` split the path at
//!    `"#sys".len() + "::".len()` after checking only `starts_with("#sys")`: the inputs "#sys",
//!    "#sys:", "#exec", "#exec:" (and a multi-byte character straddling the split point) panicked.
//! 2. `ModuleImports::read_from` keys every import by `path.last()`, and `last()` expected a `::`
//!    in the path: any single-component path such as "foo" (a valid `LibraryPath`) panicked.

use miden_assembly::{
    ast::ModuleImports,
    utils::{Deserializable, SliceReader},
    LibraryPath,
};
use std::panic::catch_unwind;

fn path_bytes(path: &str) -> Vec<u8> {
    let mut bytes = (path.len() as u16).to_le_bytes().to_vec();
    bytes.extend_from_slice(path.as_bytes());
    bytes
}

#[test]
fn library_path_reader_never_panics_on_short_special_paths() {
    for path in ["#sys", "#sys:", "#exec", "#exec:", "#sys\u{00e9}\u{00e9}x", "#sys::", "#exec::"] {
        let bytes = path_bytes(path);
        let result = catch_unwind(|| LibraryPath::read_from(&mut SliceReader::new(&bytes)));
        assert!(result.is_ok(), "LibraryPath::read_from panicked on {path:?}");
        assert!(result.unwrap().is_err(), "{path:?} is not a valid library path");
    }
    // well-formed special paths are still accepted
    for path in ["#sys::foo", "#exec::bar::baz"] {
        let bytes = path_bytes(path);
        assert!(LibraryPath::read_from(&mut SliceReader::new(&bytes)).is_ok());
    }
}

#[test]
fn last_component_of_a_single_component_path() {
    let path = LibraryPath::new("foo").unwrap();
    assert_eq!(path.num_components(), 1);
    let last = catch_unwind(|| path.last().to_string());
    assert_eq!(last.expect("LibraryPath::last panicked on a single-component path"), "foo");
    assert_eq!(LibraryPath::new("foo::bar").unwrap().last(), "bar");
}

#[test]
fn module_imports_reader_never_panics_on_single_component_import() {
    // one import, path "foo"; zero invoked procedures
    let mut bytes = 1u16.to_le_bytes().to_vec();
    bytes.extend(path_bytes("foo"));
    bytes.extend(0u16.to_le_bytes());
    let result = catch_unwind(|| ModuleImports::read_from(&mut SliceReader::new(&bytes)));
    assert!(result.is_ok(), "ModuleImports::read_from panicked on the import path \"foo\"");
}

//! Demonstration: u64::shr must return a >> b for every a, also when the low limb of a is 2^32 - 1
//! and the shift amount is 32 or more.
macro_rules! build_test {
    ($($params:tt)+) => {{
        let mut test = test_utils::build_test_by_mode!(false, $($params)+);
        test.libraries = vec![miden_stdlib::StdLibrary::default().into()];
        test
    }}
}

fn shr(a: u64, b: u32) -> (u64, u64) {
    let source = "
        use.std::math::u64
        begin
            exec.u64::shr
        end";
    let (a_hi, a_lo) = (a >> 32, a & 0xffff_ffff);
    let test = build_test!(source, &[5, a_lo, a_hi, b as u64]);
    let last = test.get_last_stack_state();
    (last[0].as_int(), last[1].as_int())
}

#[test]
fn shr_low_limb_all_ones() {
    for b in [32u32, 33, 40, 47, 63] {
        let a = 0x1234_5678_ffff_ffffu64;
        let c = a >> b;
        assert_eq!((c >> 32, c & 0xffff_ffff), shr(a, b), "a = {a:#x}, b = {b}");
    }
}

#[test]
fn shr_other_values_unchanged() {
    for (a, b) in [(0x1234_5678_ffff_fffeu64, 40u32), (0xffff_ffff_ffff_ffff, 1), (0xffff_ffff_ffff_ffff, 31), (0x8000_0000_0000_0001, 0), (0xdead_beef_0bad_f00d, 17)] {
        let c = a >> b;
        assert_eq!((c >> 32, c & 0xffff_ffff), shr(a, b), "a = {a:#x}, b = {b}");
    }
}

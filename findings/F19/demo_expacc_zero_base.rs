//! Demonstration: `exp` with base 0 must produce 0 (0^b = 0 for b > 0, 0^0 = 1) like every other base,
//! in debug as well as in release builds.
use miden_assembly::Assembler;
use miden_processor::{DefaultHost, ExecutionOptions, StackInputs};

fn top(source: &str) -> u64 {
    let program = Assembler::default().compile(source).unwrap();
    let trace = miden_processor::execute(&program, StackInputs::default(), DefaultHost::default(), ExecutionOptions::default()).unwrap();
    trace.stack_outputs().stack()[0]
}

#[test]
fn exp_imm_base_zero() {
    assert_eq!(0, top("begin push.0 exp.8 end"));
    assert_eq!(0, top("begin push.0 exp.9 end"));
}

#[test]
fn exp_base_zero_exponent_on_stack() {
    assert_eq!(0, top("begin push.0 push.5 exp end"));
    assert_eq!(1, top("begin push.0 push.0 exp end"));
}

#[test]
fn exp_other_bases_unchanged() {
    assert_eq!(256, top("begin push.2 exp.8 end"));
    assert_eq!(1, top("begin push.1 exp.9 end"));
    assert_eq!(243, top("begin push.3 push.5 exp end"));
}

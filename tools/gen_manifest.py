#!/usr/bin/env python3
"""Generates /verif/MANIFEST.json from the claims table below (single source of truth)."""
import json, os
V = os.path.dirname(os.path.dirname(os.path.abspath(__file__)))
TB = "rustc (nightly) MIR/type information via the mirfacts driver; the Python rule layer in /verif/vlib; external crates not analysed"

CLAIMS = {
 "C15": dict(cat="other", tech="static analysis: single-writer + must-pass-through rules over MIR call graph/CFG (dominators, path counting)",
   text="Decides the wiring of the cycle limit on the current source: System.clk has exactly one writer; the comparison there is equivalent to `clk > max_cycles`, returns CycleLimitExceeded and dominates every trace write; max_cycles flows unchanged from ExecutionOptions; every decoder row producer is followed by exactly one execute_op which advances the clock exactly once; every executor loop executes an operation; ExecutionOptions::new has both rejecting comparisons and no other constructor bypasses them. Universally quantified over code sites, so it holds for every program; it does not count cycles numerically.",
   note="Trusted: " + TB + ". Not decided: the numeric cycle count of a given program.", ref="§3 C15"),
 "C04": dict(cat="other", tech="static analysis: abstract interpretation of the AIR's MIR into exact constraint polynomials per opcode (constant propagation, canonical forms), compared with the parsed specification; call-graph reachability for wiring",
   text="The constraint polynomials are reconstructed from the AIR source (mirsym over MIR facts) for each of the 89 opcodes and compared with obligations parsed at run time from docs/src/design: every documented copy/shift cell must have exactly the constraint s_i' - s_j (up to a unit), every operation-specific cell must be fixed by a constraint linear in it with a constant non-zero coefficient (a per-cell proof that a wrong value violates a constraint) or be a listed conditional cell that occurs in an active constraint, every documented formula that parses must be present up to a unit, flag_X(opcode_Y) is the identity matrix, depth/overflow constraints have their canonical forms, the range-checker polynomial has roots {0,3^k} and b_range is the LogUp identity, chiplet slots are selector-gated and mention every listed column, and every enforce_* function is wired. Breaking any of these makes some wrong transition acceptable, for every trace.",
   note="Trusted: " + TB + "; the mirsym interpreter; docs/src/design as oracle; frozen CONDITIONAL/EXEMPT/LATEX_DISCREPANCIES tables (each row with its reason). Chiplet determinacy, conditional cells and bus-defined cells are not decided. Level is 'other' because listed known findings leave obligations undischarged.", ref="§3 C04"),
 "C03": dict(cat="other", tech="static analysis: abstract interpretation of every operation handler (all syntactic paths) into next-row expressions, substituted into the extracted constraint polynomials; canonical-form comparison; typestate of decoder rows",
   text="Writer/reader agreement over all operations: each handler path of Process::execute_op (extracted by abstract interpretation on a symbolic stack row) writes all 16 next-row cells through exactly one copy/shift primitive and one clock advance; its next row, helper values and fmp update, substituted into every stack transition constraint restricted to that opcode, give the zero polynomial (constraints that depend on values the model treats as fresh - u32 limbs, memory, advice - are counted as undecided, not passed); handler effects agree cell by cell with the documented shift sentences and opcode prefix classes; control operations execute the documented Noop/Drop; helper registers read by constraints are written; exactly the prefix-100 operations request range checks; every DecoderTrace::append_* grows all 24 columns by one row with correct op bits and degree-reduction columns; the trace length formula has exactly its three sources plus NUM_RAND_ROWS and no capacity hint.",
   note="Trusted: " + TB + "; mirsym and the abstract Process model (stack/system/chiplets/host intrinsics in vlib/procmodel.py); docs/src/design. Not decided: auxiliary columns, chiplet fragments, range-table contents, concrete trace values.", ref="§3 C03"),
 "C05": dict(cat="other", tech="static analysis: abstract interpretation of the assembler's instruction lowering (all variants, all syntactic paths) composed with the operation model on a symbolic stack; comparison with the parsed instruction reference",
   text="For every Instruction variant the lowering to VM operations is extracted from Assembler::compile_instruction (symbolic immediates, guards as labels) and composed with the handler model on a symbolic stack of 16 visible + 16 deeper cells. Data-movement instructions (96 variants) must equal the reference permutation on every cell including those below position 15 (equality of symbolic stacks is equality for every concrete stack); for every matched row of the reference tables the net depth change, the untouched frame, copied outputs and polynomial result formulas (c <- a+b, a*b^-1, ...) are compared; eq/neq/eqw/assert_eq* must compare exactly the documented cell pairs; documented failing cases must be reachable with guards over the documented operands and no prior stack write; error codes and zero-divisor immediates are wired; validated parameter ranges equal the documented ones; shift_left pops/decrements only when depth > 16.",
   note="Trusted: " + TB + "; mirsym, lowering extractor, operation model; docs/src/user_docs/assembly as oracle; frozen family formulas / FAILING / RANGES tables. Not decided: numerical results of u32, ext2, hashing instructions (fresh values in the model); immediate text parsing; counted/list immediates only for a representative symbolic length.", ref="§3 C05"),
 "C06": dict(cat="other", tech="static analysis: contradiction/one-sided-comparison rule and dominance rules over MIR CFGs; argument-provenance slices; abstract interpretation of compile_procedure",
   text="In the block executors every branch on `value == ONE` must have, on all paths of its other side, a comparison of the same value with ZERO whose remaining side returns NotBinaryValue before any consequence (child execution, end_*, execute_op, return): decided for the if condition, the loop-entry condition and the loop re-entry test. Split children are executed under the right comparison, join executes first() then second(), start_* dominates children and end_* runs exactly once on success; compile_body passes (true_case, false_case) to new_split in that order, wraps the while body in new_loop and pushes `times` clones for repeat; compile_procedure wraps bodies with locals in Push(n) FmpUpdate ... Push(-n) FmpUpdate with n = num_locals.",
   note="Trusted: " + TB + "; mirsym for compile_procedure. Not decided: behaviour of nested programs as a whole; exec inlining beyond the lowering shape.", ref="§3 C06"),
 "C07": dict(cat="other", tech="static analysis: argument-provenance (def-use slices) at every memory call site, dominance rules for the context switch, abstract interpretation of System::start_call/start_syscall/restore_context, evaluated constants vs the documented memory layout, guardedness of address arithmetic",
   text="Every memory access of the operation handlers passes exactly self.system.ctx() as context and an address that went through get_valid_address (the 2^32 check); the memory map is keyed by the ctx parameter, vacant reads give the zero word, an element store keeps elements 1..3; start_call_block snapshots (ctx, fn_hash, fmp, depth, overflow address) in the order ExecutionContextInfo stores them and end_call_block restores from the like-named fields after the depth > 16 rejection; the syscall path runs access_kernel_proc(..)? before switching context; caller is gated by in_syscall and returns fn_hash; the assembler rejects call/syscall in kernels and caller outside; FMP_MIN, SYSCALL_FMP_MIN and FMP_MAX equal the documented layout (2^30, 2^31, 3*2^30-1) and start_call/start_syscall/restore_context set fmp/ctx/in_syscall/fn_hash accordingly; u32 additions on addresses must be guarded.",
   note="Trusted: " + TB + "; mirsym; docs/src/user_docs/assembly/execution_contexts.md as oracle for the layout. Not decided: memory contents over histories.", ref="§3 C07"),
 "C10": dict(cat="other", tech="static analysis: abstract interpretation of every write_into / read_from pair (recording writer, replaying reader over symbolic values); comparison of the rebuilt symbolic value with the original",
   text="For every Serializable/Deserializable pair of the workspace (230 Instruction variants, 233 opcodes, advice injectors, nodes, procedure/program/module ASTs under both serde options, imports, library paths/namespaces/versions, procedure names/ids, source locations, kernels, program info, stack inputs/outputs, public inputs, hash function tags, execution proofs) the writer is interpreted on a symbolic instance of each enum variant and the reader on the recorded token stream: widths, tags, order, counts, left-over tokens and the rebuilt value are compared. Immediates are symbolic, so agreement holds for every immediate value; collection lengths are representative.",
   note="Trusted: " + TB + "; mirsym and the serde model (winter-utils ByteReader/ByteWriter modelled per method; label/path validators abstract). MaslLibrary is not covered (path arithmetic on symbolic strings). Equality of recompiled MAST roots is not decided.", ref="§3 C10"),
 "C19": dict(cat="other", tech="static analysis: abstract interpretation of every reader over a fully symbolic byte stream with path forking (panic reachability with constant-propagation feasibility), construction-site (who-may-construct) rule, parameter-provenance rule for validity checks",
   text="Every Deserializable::read_from (and the inherent ProgramAst/ModuleAst readers) is interpreted with a ByteReader whose every read returns a fresh symbolic value; all syntactic paths are enumerated and a path reaching panic!/unreachable!/expect/unwrap, or a compiler-inserted bounds/overflow check whose condition depends on input bytes, is reported unless constant propagation shows the path contradictory (ledger: one site, with reason). Accepted values re-encode (symbolic round trip of the untrusted-input types). Types with validating constructors (StackOutputs, StackInputs, Kernel, LibraryPath, ProcedureName, LibraryNamespace, ExecutionOptions) are built only in their constructors/Default/Clone, have no public fields, and their readers go through the constructor. StackOutputs::new passes every integer parameter to find_invalid_elements (which compares with the modulus) before construction; try_from_values / with_stack_values convert only with Felt::try_from.",
   note="Trusted: " + TB + "; mirsym, serde model; winter-utils and miden-crypto readers (external) are trusted. Loops over input-sized collections are explored for one iteration; allocations sized by input are listed in the evidence, not judged.", ref="§3 C19"),
 "C11": dict(cat="other", tech="static analysis: must-pass-through and sibling cross-check rules over MIR (dominators, path counting, argument provenance) plus the lowering extractor for parameter validation paths",
   text="Callset closure: each of the eight invocation lowerings (exec/call/syscall/procref, local and imported, call by root) registers the call with the right `inlined` constant before building the call block or pushing the root and propagates the error; the AssemblyContext wrappers forward `inlined`; both ModuleContext::register_*_call siblings append the callee's callset on every successful path and insert its root exactly when !inlined; complete_proc / complete_executable propagate upward, into_procedure keeps the callset, into_cb_table inserts every entry or fails with CallSetProcedureNotFound. Each listed invalid construct (undefined local procedure, unknown import, circular modules, duplicate name, call/syscall in a kernel, caller outside, phantom calls, zero divisor immediates, out-of-range parameters and local indexes, export in an executable) has a reachable rejecting path; no compiler-inserted arithmetic check on an instruction parameter runs before its validation; the procedure cache is keyed by root and id with a conflict rejection.",
   note="Trusted: " + TB + "; lowering extractor. Not decided: equality of programs across compilation histories and library orders.", ref="§3 C11"),
}

NA = {
 "C17": "equality of digests with reference hash functions for all inputs is purely numerical; no clause of it is visible in the shape of the code beyond what the existing tests already pin for every input (DESIGN §4)",
}
PENDING = "rules for this property are not built yet in this round (planned in DESIGN.md §3); not claimed until they are"

def main():
    props = [json.loads(l)["id"] for l in open(os.path.join(V, "properties.jsonl"))]
    checks = []
    for pid in props:
        if pid in CLAIMS:
            c = CLAIMS[pid]
            checks.append({
                "property_id": pid,
                "quick_cmd": "./check %s --tier quick" % pid,
                "thorough_cmd": "./check %s --tier thorough" % pid,
                "evidence_file": "/verif/evidence/%s.json" % pid,
                "replay_cmd_template": "./check %s --replay {path}" % pid,
                "engine": "check",
                "level_claimed": {"category": c["cat"], "text": c["text"], "design_ref": c["ref"]},
                "level_note": c["note"],
                "technique": c["tech"],
            })
    na = [{"property_id": p, "reason": NA.get(p, PENDING)} for p in props if p not in CLAIMS]
    m = {
        "version": 1,
        "setup_cmd": "./setup.sh",
        "hooks": {"guard": "cf_miden_vm_verif", "enable": "none needed: static analysis reads /repo's tree as it is (no hook commits)",
                  "baseline_off_cmd": "cd /repo && cargo test --workspace --no-fail-fast --offline", "source_commits": [], "add_only": True},
        "engines": [
            {"name": "mirfacts", "path": "tools/mirfacts", "serves_properties": sorted(CLAIMS), "kind_free_text": "rustc_private driver (RUSTC_WORKSPACE_WRAPPER under cargo +nightly check) dumping MIR, resolved callees, ADTs and evaluated constants as JSON facts"},
            {"name": "check", "path": "check", "serves_properties": sorted(CLAIMS), "kind_free_text": "Python rule layer over the facts: call-graph, dominator, def-use and path-count rules; writes evidence and verdict lines"},
        ],
        "checks": checks,
        "not_applicable": na,
        "notes": "All checks are static analyses of /repo's current working tree (facts are re-extracted whenever any file changes; cache keyed by content hash). See DESIGN.md.",
    }
    json.dump(m, open(os.path.join(V, "MANIFEST.json"), "w"), indent=1)
    print("claims:", sorted(CLAIMS), "na:", [x["property_id"] for x in na])

main()

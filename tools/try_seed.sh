#!/bin/bash
# try_seed.sh <seed-name> <property...>: apply a seeded change to /repo, run the checks, undo it straight afterwards
S=$1; shift
cd /repo && git apply /verif/seeded/$S/patch.diff || exit 2
cd /verif
for p in "$@"; do ./check $p --no-evidence 2>&1 | grep -E "VIOLATION|^\[|— " | grep -v KNOWN-FINDING | cut -c1-400; done
git -C /repo checkout -- . ; git -C /repo status --short | head -3

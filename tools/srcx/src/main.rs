//! srcx: parses every Rust source file of the workspace crates with `syn` and dumps a compact JSON
//! syntax tree (with line numbers) for the Python extractors (airsym, lowering, serdepair).
//! usage: srcx <repo-root> <out-dir>
use proc_macro2::{Span, TokenStream};
use quote::ToTokens;
use serde_json::{json, Value};
use std::path::{Path, PathBuf};
use syn::parse::Parser;
use syn::punctuated::Punctuated;
use syn::spanned::Spanned;
use syn::*;

fn ln(s: Span) -> usize {
    s.start().line
}

fn ts(t: &impl ToTokens) -> String {
    let s = t.to_token_stream().to_string();
    // normalise spacing of paths / generics a little
    s.replace(" :: ", "::").replace(" < ", "<").replace(" >", ">").replace("& ", "&").replace(" ,", ",").replace(" ;", ";")
}

fn attrs(a: &[Attribute]) -> Value {
    let mut v = Vec::new();
    for at in a {
        if at.path().is_ident("doc") {
            continue;
        }
        v.push(Value::String(ts(&at.meta)));
    }
    Value::Array(v)
}

fn is_cfg_test(a: &[Attribute]) -> bool {
    a.iter().any(|at| {
        if !at.path().is_ident("cfg") {
            return false;
        }
        let s = ts(&at.meta).replace(' ', "");
        s == "cfg(test)" || s.starts_with("cfg(all(test") || s == "cfg(any(test,feature=\"internals\"))" && false
    })
}

fn path(p: &syn::Path) -> Value {
    let mut segs = Vec::new();
    for s in p.segments.iter() {
        segs.push(Value::String(s.ident.to_string()));
    }
    let mut ga = Vec::new();
    if let Some(last) = p.segments.last() {
        if let PathArguments::AngleBracketed(ab) = &last.arguments {
            for a in ab.args.iter() {
                match a {
                    GenericArgument::Type(t) => ga.push(Value::String(ts(t))),
                    GenericArgument::Const(e) => ga.push(expr(e)),
                    other => ga.push(Value::String(ts(other))),
                }
            }
        }
    }
    json!({"segs": segs, "ga": ga})
}

fn pat(p: &Pat) -> Value {
    let l = ln(p.span());
    match p {
        Pat::Ident(i) => json!({"t":"PIdent","ln":l,"name":i.ident.to_string(),"mut":i.mutability.is_some(),"by_ref":i.by_ref.is_some(),
            "sub": i.subpat.as_ref().map(|(_, s)| pat(s))}),
        Pat::Wild(_) => json!({"t":"PWild","ln":l}),
        Pat::Tuple(t) => json!({"t":"PTuple","ln":l,"elems":t.elems.iter().map(pat).collect::<Vec<_>>()}),
        Pat::TupleStruct(t) => json!({"t":"PTupleStruct","ln":l,"path":path(&t.path),"elems":t.elems.iter().map(pat).collect::<Vec<_>>()}),
        Pat::Struct(s) => json!({"t":"PStruct","ln":l,"path":path(&s.path),"rest":s.rest.is_some(),
            "fields": s.fields.iter().map(|f| json!({"name": member(&f.member), "pat": pat(&f.pat)})).collect::<Vec<_>>()}),
        Pat::Path(pp) => json!({"t":"PPath","ln":l,"path":path(&pp.path)}),
        Pat::Lit(li) => json!({"t":"PLit","ln":l,"lit":lit(&li.lit)}),
        Pat::Or(o) => json!({"t":"POr","ln":l,"cases":o.cases.iter().map(pat).collect::<Vec<_>>()}),
        Pat::Reference(r) => json!({"t":"PRef","ln":l,"pat":pat(&r.pat)}),
        Pat::Range(r) => json!({"t":"PRange","ln":l,"start":r.start.as_ref().map(|e| expr(e)),"end":r.end.as_ref().map(|e| expr(e)),
            "closed": matches!(r.limits, RangeLimits::Closed(_))}),
        Pat::Slice(s) => json!({"t":"PSlice","ln":l,"elems":s.elems.iter().map(pat).collect::<Vec<_>>()}),
        Pat::Type(t) => json!({"t":"PType","ln":l,"pat":pat(&t.pat),"ty":ts(&t.ty)}),
        Pat::Rest(_) => json!({"t":"PRest","ln":l}),
        Pat::Paren(p) => pat(&p.pat),
        Pat::Const(c) => json!({"t":"PConst","ln":l,"block":block(&c.block)}),
        Pat::Macro(m) => json!({"t":"PMacro","ln":l,"tokens":ts(&m.mac)}),
        other => json!({"t":"POther","ln":l,"tokens":ts(other)}),
    }
}

fn member(m: &Member) -> String {
    match m {
        Member::Named(i) => i.to_string(),
        Member::Unnamed(i) => i.index.to_string(),
    }
}

fn lit(l: &Lit) -> Value {
    match l {
        Lit::Int(i) => json!({"k":"int","v":i.base10_digits(),"suffix":i.suffix()}),
        Lit::Bool(b) => json!({"k":"bool","v":b.value}),
        Lit::Str(s) => json!({"k":"str","v":s.value()}),
        Lit::Char(c) => json!({"k":"char","v":c.value().to_string()}),
        Lit::Byte(b) => json!({"k":"int","v":b.value().to_string(),"suffix":"u8"}),
        Lit::Float(f) => json!({"k":"float","v":f.base10_digits()}),
        Lit::ByteStr(b) => json!({"k":"bytes","v":b.value()}),
        other => json!({"k":"other","v":ts(other)}),
    }
}

fn block(b: &Block) -> Value {
    Value::Array(b.stmts.iter().map(stmt).collect())
}

fn stmt(s: &Stmt) -> Value {
    match s {
        Stmt::Local(l) => {
            let (init, els) = match &l.init {
                Some(i) => (Some(expr(&i.expr)), i.diverge.as_ref().map(|(_, e)| expr(e))),
                None => (None, None),
            };
            json!({"t":"Let","ln":ln(l.span()),"pat":pat(&l.pat),"init":init,"else":els})
        }
        Stmt::Item(i) => json!({"t":"ItemStmt","ln":ln(i.span()),"item":item(i)}),
        Stmt::Expr(e, semi) => json!({"t":"ExprStmt","ln":ln(e.span()),"expr":expr(e),"semi":semi.is_some()}),
        Stmt::Macro(m) => json!({"t":"ExprStmt","ln":ln(m.span()),"expr":mac(&m.mac, ln(m.span())),"semi":m.semi_token.is_some()}),
    }
}

fn mac(m: &Macro, l: usize) -> Value {
    let name = m.path.segments.last().map(|s| s.ident.to_string()).unwrap_or_default();
    let tokens: TokenStream = m.tokens.clone();
    // try: comma separated expressions
    let parser = Punctuated::<Expr, Token![,]>::parse_terminated;
    let mut args: Option<Vec<Value>> = None;
    let mut form = "list";
    if let Ok(p) = parser.parse2(tokens.clone()) {
        args = Some(p.iter().map(expr).collect());
    } else {
        // vec![x; n]
        let rep = |input: parse::ParseStream| -> Result<(Expr, Expr)> {
            let a: Expr = input.parse()?;
            let _: Token![;] = input.parse()?;
            let b: Expr = input.parse()?;
            Ok((a, b))
        };
        if let Ok((a, b)) = rep.parse2(tokens.clone()) {
            args = Some(vec![expr(&a), expr(&b)]);
            form = "repeat";
        } else {
            // matches!(expr, pat [if guard])
            let mt = |input: parse::ParseStream| -> Result<(Expr, Pat, Option<Expr>)> {
                let a: Expr = input.parse()?;
                let _: Token![,] = input.parse()?;
                let p = Pat::parse_multi_with_leading_vert(input)?;
                let g = if input.peek(Token![if]) {
                    let _: Token![if] = input.parse()?;
                    Some(input.parse::<Expr>()?)
                } else {
                    None
                };
                let _ = input.parse::<Option<Token![,]>>()?;
                Ok((a, p, g))
            };
            if let Ok((a, p, g)) = mt.parse2(tokens.clone()) {
                form = "matches";
                return json!({"t":"Macro","ln":l,"name":name,"form":form,"expr":expr(&a),"pat":pat(&p),"guard":g.as_ref().map(expr),"tokens":tokens.to_string()});
            }
        }
    }
    json!({"t":"Macro","ln":l,"name":name,"form":form,"args":args,"tokens":tokens.to_string()})
}

fn expr(e: &Expr) -> Value {
    let l = ln(e.span());
    match e {
        Expr::Lit(x) => json!({"t":"Lit","ln":l,"lit":lit(&x.lit)}),
        Expr::Path(x) => json!({"t":"Path","ln":l,"path":path(&x.path),"qself":x.qself.as_ref().map(|q| ts(&q.ty))}),
        Expr::Binary(x) => json!({"t":"Binary","ln":l,"op":ts(&x.op),"l":expr(&x.left),"r":expr(&x.right)}),
        Expr::Unary(x) => json!({"t":"Unary","ln":l,"op":ts(&x.op),"e":expr(&x.expr)}),
        Expr::Call(x) => json!({"t":"Call","ln":l,"f":expr(&x.func),"args":x.args.iter().map(expr).collect::<Vec<_>>()}),
        Expr::MethodCall(x) => json!({"t":"MethodCall","ln":l,"recv":expr(&x.receiver),"method":x.method.to_string(),
            "turbofish": x.turbofish.as_ref().map(|t| ts(t)),
            "args":x.args.iter().map(expr).collect::<Vec<_>>()}),
        Expr::Field(x) => json!({"t":"Field","ln":l,"base":expr(&x.base),"member":member(&x.member)}),
        Expr::Index(x) => json!({"t":"Index","ln":l,"base":expr(&x.expr),"index":expr(&x.index)}),
        Expr::Range(x) => json!({"t":"Range","ln":l,"start":x.start.as_ref().map(|e| expr(e)),"end":x.end.as_ref().map(|e| expr(e)),
            "closed": matches!(x.limits, RangeLimits::Closed(_))}),
        Expr::Reference(x) => json!({"t":"Ref","ln":l,"mut":x.mutability.is_some(),"e":expr(&x.expr)}),
        Expr::Paren(x) => expr(&x.expr),
        Expr::Group(x) => expr(&x.expr),
        Expr::Tuple(x) => json!({"t":"Tuple","ln":l,"elems":x.elems.iter().map(expr).collect::<Vec<_>>()}),
        Expr::Array(x) => json!({"t":"Array","ln":l,"elems":x.elems.iter().map(expr).collect::<Vec<_>>()}),
        Expr::Repeat(x) => json!({"t":"Repeat","ln":l,"e":expr(&x.expr),"len":expr(&x.len)}),
        Expr::Struct(x) => json!({"t":"Struct","ln":l,"path":path(&x.path),"rest":x.rest.as_ref().map(|e| expr(e)),
            "fields":x.fields.iter().map(|f| json!({"name":member(&f.member),"e":expr(&f.expr)})).collect::<Vec<_>>()}),
        Expr::Assign(x) => json!({"t":"Assign","ln":l,"l":expr(&x.left),"r":expr(&x.right)}),
        Expr::Block(x) => json!({"t":"Block","ln":l,"stmts":block(&x.block)}),
        Expr::Unsafe(x) => json!({"t":"Block","ln":l,"stmts":block(&x.block),"unsafe":true}),
        Expr::If(x) => json!({"t":"If","ln":l,"cond":expr(&x.cond),"then":block(&x.then_branch),"else":x.else_branch.as_ref().map(|(_, e)| expr(e))}),
        Expr::Let(x) => json!({"t":"LetCond","ln":l,"pat":pat(&x.pat),"e":expr(&x.expr)}),
        Expr::Match(x) => json!({"t":"Match","ln":l,"e":expr(&x.expr),"arms":x.arms.iter().map(|a| json!({
            "ln": ln(a.span()), "pat":pat(&a.pat),"guard":a.guard.as_ref().map(|(_, g)| expr(g)),"body":expr(&a.body)})).collect::<Vec<_>>()}),
        Expr::ForLoop(x) => json!({"t":"For","ln":l,"pat":pat(&x.pat),"iter":expr(&x.expr),"body":block(&x.body)}),
        Expr::While(x) => json!({"t":"While","ln":l,"cond":expr(&x.cond),"body":block(&x.body)}),
        Expr::Loop(x) => json!({"t":"Loop","ln":l,"body":block(&x.body)}),
        Expr::Break(x) => json!({"t":"Break","ln":l,"e":x.expr.as_ref().map(|e| expr(e))}),
        Expr::Continue(_) => json!({"t":"Continue","ln":l}),
        Expr::Return(x) => json!({"t":"Return","ln":l,"e":x.expr.as_ref().map(|e| expr(e))}),
        Expr::Try(x) => json!({"t":"Try","ln":l,"e":expr(&x.expr)}),
        Expr::Cast(x) => json!({"t":"Cast","ln":l,"e":expr(&x.expr),"ty":ts(&x.ty)}),
        Expr::Closure(x) => json!({"t":"Closure","ln":l,"params":x.inputs.iter().map(pat).collect::<Vec<_>>(),"body":expr(&x.body),"move":x.capture.is_some()}),
        Expr::Macro(x) => mac(&x.mac, l),
        Expr::Const(x) => json!({"t":"Block","ln":l,"stmts":block(&x.block)}),
        other => json!({"t":"Other","ln":l,"tokens":ts(other)}),
    }
}

fn sig(s: &Signature) -> Value {
    let mut params = Vec::new();
    for a in s.inputs.iter() {
        match a {
            FnArg::Receiver(r) => params.push(json!({"name":"self","ty": ts(&r.ty), "ref": r.reference.is_some(), "mut": r.mutability.is_some()})),
            FnArg::Typed(t) => params.push(json!({"pat": pat(&t.pat), "name": match &*t.pat { Pat::Ident(i) => i.ident.to_string(), _ => String::new() }, "ty": ts(&t.ty)})),
        }
    }
    let ret = match &s.output {
        ReturnType::Default => Value::Null,
        ReturnType::Type(_, t) => Value::String(ts(t)),
    };
    json!({"name": s.ident.to_string(), "params": params, "ret": ret, "generics": ts(&s.generics), "const": s.constness.is_some()})
}

fn vis(v: &Visibility) -> String {
    match v {
        Visibility::Public(_) => "pub".into(),
        Visibility::Restricted(r) => format!("pub({})", ts(&r.path)),
        Visibility::Inherited => "".into(),
    }
}

fn use_tree(t: &UseTree, prefix: &mut Vec<String>, out: &mut Vec<Value>) {
    match t {
        UseTree::Path(p) => {
            prefix.push(p.ident.to_string());
            use_tree(&p.tree, prefix, out);
            prefix.pop();
        }
        UseTree::Name(n) => {
            let mut full = prefix.clone();
            full.push(n.ident.to_string());
            out.push(json!({"path": full, "as": n.ident.to_string()}));
        }
        UseTree::Rename(r) => {
            let mut full = prefix.clone();
            full.push(r.ident.to_string());
            out.push(json!({"path": full, "as": r.rename.to_string()}));
        }
        UseTree::Glob(_) => {
            out.push(json!({"path": prefix.clone(), "as": "*"}));
        }
        UseTree::Group(g) => {
            for it in g.items.iter() {
                use_tree(it, prefix, out);
            }
        }
    }
}

fn fields(f: &Fields) -> Value {
    let mut v = Vec::new();
    for (i, fd) in f.iter().enumerate() {
        v.push(json!({"name": fd.ident.as_ref().map(|i| i.to_string()).unwrap_or(i.to_string()), "ty": ts(&fd.ty), "vis": vis(&fd.vis)}));
    }
    Value::Array(v)
}

fn item(i: &Item) -> Value {
    let l = ln(i.span());
    match i {
        Item::Fn(f) => json!({"t":"Fn","ln":l,"end":f.span().end().line,"vis":vis(&f.vis),"attrs":attrs(&f.attrs),"cfg_test":is_cfg_test(&f.attrs),"sig":sig(&f.sig),"body":block(&f.block)}),
        Item::Const(c) => json!({"t":"Const","ln":l,"vis":vis(&c.vis),"attrs":attrs(&c.attrs),"cfg_test":is_cfg_test(&c.attrs),"name":c.ident.to_string(),"ty":ts(&c.ty),"e":expr(&c.expr)}),
        Item::Static(c) => json!({"t":"Const","ln":l,"vis":vis(&c.vis),"attrs":attrs(&c.attrs),"cfg_test":is_cfg_test(&c.attrs),"name":c.ident.to_string(),"ty":ts(&c.ty),"e":expr(&c.expr)}),
        Item::Struct(s) => json!({"t":"Struct","ln":l,"vis":vis(&s.vis),"attrs":attrs(&s.attrs),"cfg_test":is_cfg_test(&s.attrs),"name":s.ident.to_string(),"fields":fields(&s.fields),"generics":ts(&s.generics)}),
        Item::Enum(e) => json!({"t":"Enum","ln":l,"vis":vis(&e.vis),"attrs":attrs(&e.attrs),"cfg_test":is_cfg_test(&e.attrs),"name":e.ident.to_string(),
            "variants": e.variants.iter().map(|v| json!({"name":v.ident.to_string(),"ln":ln(v.span()),"fields":fields(&v.fields),
                "discr": v.discriminant.as_ref().map(|(_, e)| expr(e))})).collect::<Vec<_>>()}),
        Item::Impl(im) => {
            let mut items = Vec::new();
            for it in im.items.iter() {
                match it {
                    ImplItem::Fn(f) => items.push(json!({"t":"Fn","ln":ln(f.span()),"end":f.span().end().line,"vis":vis(&f.vis),"attrs":attrs(&f.attrs),"cfg_test":is_cfg_test(&f.attrs),"sig":sig(&f.sig),"body":block(&f.block)})),
                    ImplItem::Const(c) => items.push(json!({"t":"Const","ln":ln(c.span()),"vis":vis(&c.vis),"attrs":attrs(&c.attrs),"cfg_test":is_cfg_test(&c.attrs),"name":c.ident.to_string(),"ty":ts(&c.ty),"e":expr(&c.expr)})),
                    ImplItem::Type(t) => items.push(json!({"t":"Type","ln":ln(t.span()),"name":t.ident.to_string(),"ty":ts(&t.ty)})),
                    other => items.push(json!({"t":"Other","ln":ln(other.span()),"tokens":ts(other)})),
                }
            }
            json!({"t":"Impl","ln":l,"attrs":attrs(&im.attrs),"cfg_test":is_cfg_test(&im.attrs),"self_ty":ts(&im.self_ty),
                "trait": im.trait_.as_ref().map(|(_, p, _)| ts(p)), "generics": ts(&im.generics), "items": items})
        }
        Item::Trait(t) => {
            let mut items = Vec::new();
            for it in t.items.iter() {
                match it {
                    TraitItem::Fn(f) => items.push(json!({"t":"Fn","ln":ln(f.span()),"end":f.span().end().line,"vis":"pub","attrs":attrs(&f.attrs),"cfg_test":false,"sig":sig(&f.sig),
                        "body": f.default.as_ref().map(|b| block(b))})),
                    TraitItem::Const(c) => items.push(json!({"t":"Const","ln":ln(c.span()),"name":c.ident.to_string(),"ty":ts(&c.ty),"e":c.default.as_ref().map(|(_, e)| expr(e))})),
                    other => items.push(json!({"t":"Other","ln":ln(other.span()),"tokens":ts(other)})),
                }
            }
            json!({"t":"Trait","ln":l,"vis":vis(&t.vis),"attrs":attrs(&t.attrs),"cfg_test":is_cfg_test(&t.attrs),"name":t.ident.to_string(),"items":items})
        }
        Item::Mod(m) => json!({"t":"Mod","ln":l,"vis":vis(&m.vis),"attrs":attrs(&m.attrs),"cfg_test":is_cfg_test(&m.attrs),"name":m.ident.to_string(),
            "items": m.content.as_ref().map(|(_, its)| its.iter().map(item).collect::<Vec<_>>())}),
        Item::Use(u) => {
            let mut out = Vec::new();
            use_tree(&u.tree, &mut Vec::new(), &mut out);
            json!({"t":"Use","ln":l,"vis":vis(&u.vis),"attrs":attrs(&u.attrs),"cfg_test":is_cfg_test(&u.attrs),"uses":out})
        }
        Item::Type(t) => json!({"t":"TypeAlias","ln":l,"vis":vis(&t.vis),"name":t.ident.to_string(),"ty":ts(&t.ty)}),
        Item::Macro(m) => json!({"t":"ItemMacro","ln":l,"name":m.mac.path.segments.last().map(|s| s.ident.to_string()),"ident":m.ident.as_ref().map(|i| i.to_string()),"tokens":m.mac.tokens.to_string()}),
        other => json!({"t":"OtherItem","ln":l,"tokens":ts(other).chars().take(200).collect::<String>()}),
    }
}

fn walk(dir: &Path, out: &mut Vec<PathBuf>) {
    if let Ok(rd) = std::fs::read_dir(dir) {
        let mut es: Vec<_> = rd.filter_map(|e| e.ok()).collect();
        es.sort_by_key(|e| e.path());
        for e in es {
            let p = e.path();
            if p.is_dir() {
                walk(&p, out);
            } else if p.extension().map(|x| x == "rs").unwrap_or(false) {
                out.push(p);
            }
        }
    }
}

fn main() {
    let args: Vec<String> = std::env::args().collect();
    if args.len() < 3 {
        eprintln!("usage: srcx <repo-root> <out-dir>");
        std::process::exit(2);
    }
    let root = PathBuf::from(&args[1]);
    let outd = PathBuf::from(&args[2]);
    std::fs::create_dir_all(&outd).unwrap();
    let crates = ["core", "assembly", "air", "processor", "prover", "verifier", "stdlib", "miden", "test-utils"];
    let mut failed = 0;
    for c in crates.iter() {
        let mut files = Vec::new();
        walk(&root.join(c).join("src"), &mut files);
        let bp = root.join(c).join("build.rs");
        if bp.exists() {
            files.push(bp);
        }
        let mut outv = Vec::new();
        for f in files {
            let src = match std::fs::read_to_string(&f) {
                Ok(s) => s,
                Err(_) => continue,
            };
            let rel = f.strip_prefix(&root).unwrap().to_string_lossy().to_string();
            match syn::parse_file(&src) {
                Ok(file) => {
                    let items: Vec<Value> = file.items.iter().map(item).collect();
                    outv.push(json!({"file": rel, "lines": src.lines().count(), "items": items}));
                }
                Err(e) => {
                    eprintln!("srcx: parse error in {}: {}", rel, e);
                    failed += 1;
                }
            }
        }
        let p = outd.join(format!("{}.json", c));
        std::fs::write(&p, serde_json::to_string(&outv).unwrap()).unwrap();
    }
    if failed > 0 {
        std::process::exit(1);
    }
}

#!/bin/bash
# selftest.sh [seed...]: for every seeded change (seeded/EXPECT.tsv) apply it to /repo's working tree, run the named check
# and require a NEW violation whose key contains the expected fragment; undo the change straight afterwards.
# Manual regression tool for the checkers (never run by a registered check: it edits /repo's working tree temporarily).
cd /verif
fail=0
while IFS=$'\t' read -r seed chk frag; do
  [[ "$seed" =~ ^# ]] && continue
  [ -z "$seed" ] && continue
  if [ $# -gt 0 ] && [[ ! " $* " =~ " $seed " ]]; then continue; fi
  git -C /repo apply /verif/seeded/$seed/patch.diff 2>/dev/null || { echo "SKIP $seed (patch does not apply on this tree)"; continue; }
  out=$(./check $chk --no-evidence 2>&1)
  git -C /repo checkout -- .
  if echo "$out" | grep -F -- "$frag" | grep -qv KNOWN-FINDING; then echo "OK   $seed caught by $chk ($frag)"; else echo "MISS $seed not reported by $chk ($frag)"; fail=1; fi
done < seeded/EXPECT.tsv
exit $fail

//! mirfacts: rustc_private driver used as RUSTC_WORKSPACE_WRAPPER. For every workspace crate it
//! dumps JSON-lines facts (functions, MIR bodies with resolved callees, ADTs, evaluated consts,
//! trait impls) into $MIRFACTS_OUT/<crate>-<pid>.jsonl. It never alters compilation.
#![feature(rustc_private)]
#![allow(clippy::all)]

extern crate rustc_abi;
extern crate rustc_driver;
extern crate rustc_hir;
extern crate rustc_interface;
extern crate rustc_middle;
extern crate rustc_span;

use rustc_driver::Compilation;
use rustc_hir::def::DefKind;
use rustc_hir::def_id::{DefId, LocalDefId};
use rustc_middle::mir::{
    self, AggregateKind, BinOp, Body, Const, ConstValue, Operand, Place, ProjectionElem, Rvalue,
    StatementKind, TerminatorKind,
};
use rustc_middle::ty::{self, Instance, Ty, TyCtxt, TypingEnv};
use rustc_span::Span;
use std::fmt::Write as _;

struct Cb;

impl rustc_driver::Callbacks for Cb {
    fn after_analysis<'tcx>(
        &mut self,
        _c: &rustc_interface::interface::Compiler,
        tcx: TyCtxt<'tcx>,
    ) -> Compilation {
        let out_dir = match std::env::var("MIRFACTS_OUT") {
            Ok(d) => d,
            Err(_) => return Compilation::Continue,
        };
        let krate = tcx.crate_name(rustc_hir::def_id::LOCAL_CRATE).to_string();
        if krate.starts_with("build_script") {
            return Compilation::Continue;
        }
        let mut out = String::with_capacity(1 << 24);
        dump_crate(tcx, &krate, &mut out);
        let path = format!("{}/{}-{}.jsonl", out_dir, krate, std::process::id());
        std::fs::write(&path, out).expect("mirfacts: cannot write fact file");
        Compilation::Continue
    }
}

fn main() {
    let mut args: Vec<String> = std::env::args().collect();
    // RUSTC_WORKSPACE_WRAPPER passes the real rustc path as argv[1]
    if args.len() > 1 && (args[1].ends_with("rustc") || args[1].contains("/rustc")) {
        args.remove(1);
    }
    rustc_driver::run_compiler(&args, &mut Cb);
}

// ---------------------------------------------------------------------------------------------
// JSON helpers

fn esc(s: &str) -> String {
    let mut o = String::with_capacity(s.len() + 2);
    o.push('"');
    for c in s.chars() {
        match c {
            '"' => o.push_str("\\\""),
            '\\' => o.push_str("\\\\"),
            '\n' => o.push_str("\\n"),
            '\r' => o.push_str("\\r"),
            '\t' => o.push_str("\\t"),
            c if (c as u32) < 0x20 => {
                let _ = write!(o, "\\u{:04x}", c as u32);
            }
            c => o.push(c),
        }
    }
    o.push('"');
    o
}

fn span_loc(tcx: TyCtxt<'_>, sp: Span) -> (String, usize, usize, bool) {
    let exp = sp.from_expansion();
    // for macro expansions use the outermost call site so that file:line points at user code
    let sp2 = if exp { sp.source_callsite() } else { sp };
    let sm = tcx.sess.source_map();
    let lo = sm.lookup_char_pos(sp2.lo());
    let hi = sm.lookup_char_pos(sp2.hi());
    let file = match &lo.file.name {
        rustc_span::FileName::Real(r) => match r.local_path() {
            Some(p) => p.to_string_lossy().to_string(),
            None => format!("{:?}", lo.file.name),
        },
        other => format!("{:?}", other),
    };
    (file, lo.line, hi.line, exp)
}

fn path_of(tcx: TyCtxt<'_>, did: DefId) -> String {
    ty::print::with_no_trimmed_paths!(tcx.def_path_str(did))
}


/// canonical, crate-independent id: crate::mod::..::[Type|Type@Trait]::name
fn canon(tcx: TyCtxt<'_>, did: DefId) -> String {
    canon_opt(tcx, did, true)
}

/// canonical id without the trait type arguments (`Type@Trait::name`): what rule patterns are written against
fn canon_s(tcx: TyCtxt<'_>, did: DefId) -> String {
    canon_opt(tcx, did, false)
}

fn canon_opt(tcx: TyCtxt<'_>, did: DefId, with_targs: bool) -> String {
    let mut parts: Vec<String> = Vec::new();
    let mut cur = did;
    loop {
        let key = tcx.def_key(cur);
        let parent = match key.parent {
            Some(p) => DefId { krate: cur.krate, index: p },
            None => break,
        };
        let part = match tcx.def_kind(cur) {
            DefKind::Impl { .. } => {
                let st = short_ty(tcx, tcx.type_of(cur).instantiate_identity().skip_norm_wip());
                match tcx.impl_opt_trait_ref(cur) {
                    Some(tr) => {
                        let tr = tr.instantiate_identity().skip_norm_wip();
                        // trait type arguments (without Self) distinguish e.g. TryFrom<String> from TryFrom<&str>
                        let targs: Vec<String> = tr.args.iter().skip(1).filter_map(|a| a.as_type()).map(|t| short_ty(tcx, t)).collect();
                        if targs.is_empty() || !with_targs {
                            format!("{}@{}", st, tcx.item_name(tr.def_id))
                        } else {
                            format!("{}@{}<{}>", st, tcx.item_name(tr.def_id), targs.join(","))
                        }
                    }
                    None => st,
                }
            }
            _ => {
                let d = &key.disambiguated_data;
                match d.data.get_opt_name() {
                    Some(n) if d.disambiguator == 0 => n.to_string(),
                    Some(n) => format!("{}#{}", n, d.disambiguator),
                    None => format!("{{{}#{}}}", d.data.to_string().trim_matches(|c| c == '{' || c == '}'), d.disambiguator),
                }
            }
        };
        parts.push(part);
        cur = parent;
    }
    parts.push(tcx.crate_name(did.krate).to_string());
    parts.reverse();
    parts.join("::")
}

fn short_ty<'tcx>(tcx: TyCtxt<'tcx>, t: Ty<'tcx>) -> String {
    match t.kind() {
        ty::Adt(adt, _) => tcx.item_name(adt.did()).to_string(),
        ty::Ref(_, inner, _) => format!("&{}", short_ty(tcx, *inner)),
        ty::Slice(inner) => format!("[{}]", short_ty(tcx, *inner)),
        ty::Array(inner, _) => format!("[{};N]", short_ty(tcx, *inner)),
        ty::Param(p) => p.name.to_string(),
        _ => ty_str(t),
    }
}

fn ty_str<'tcx>(t: Ty<'tcx>) -> String {
    ty::print::with_no_trimmed_paths!(format!("{}", t))
}

// ---------------------------------------------------------------------------------------------

fn dump_crate<'tcx>(tcx: TyCtxt<'tcx>, krate: &str, out: &mut String) {
    let _ = writeln!(out, "{{\"k\":\"crate\",\"name\":{}}}", esc(krate));

    // ADTs, consts, impls: walk all local definitions
    for ldid in tcx.hir_crate_items(()).definitions() {
        let did = ldid.to_def_id();
        match tcx.def_kind(did) {
            DefKind::Struct | DefKind::Enum | DefKind::Union => dump_adt(tcx, did, out),
            DefKind::Const { .. } | DefKind::AssocConst { .. } => dump_const(tcx, ldid, out),
            DefKind::Impl { .. } => dump_impl(tcx, did, out),
            DefKind::Trait => dump_trait(tcx, did, out),
            _ => {}
        }
    }

    for ldid in tcx.hir_body_owners() {
        let did = ldid.to_def_id();
        let kind = tcx.def_kind(did);
        match kind {
            DefKind::Fn | DefKind::AssocFn | DefKind::Closure => {}
            _ => continue,
        }
        dump_fn(tcx, ldid, kind, out);
    }
}

fn dump_trait<'tcx>(tcx: TyCtxt<'tcx>, did: DefId, out: &mut String) {
    let mut items = Vec::new();
    for it in tcx.associated_items(did).in_definition_order() {
        if it.is_fn() {
            let has_default = it.defaultness(tcx).has_value();
            items.push(format!("{{\"name\":{},\"id\":{},\"default\":{}}}", esc(it.name().as_str()), esc(&canon(tcx, it.def_id)), has_default));
        }
    }
    let _ = writeln!(out, "{{\"k\":\"trait\",\"id\":{},\"fns\":[{}]}}", esc(&canon(tcx, did)), items.join(","));
}

fn dump_impl<'tcx>(tcx: TyCtxt<'tcx>, did: DefId, out: &mut String) {
    let self_ty = tcx.type_of(did).instantiate_identity().skip_norm_wip();
    let tr = tcx.impl_opt_trait_ref(did).map(|t| canon(tcx, t.instantiate_identity().skip_norm_wip().def_id));
    let mut items = Vec::new();
    for it in tcx.associated_items(did).in_definition_order() {
        if it.is_fn() {
            let tit = it.trait_item_def_id().map(|d| canon(tcx, d));
            items.push(format!(
                "{{\"name\":{},\"id\":{},\"trait_item\":{}}}",
                esc(it.name().as_str()),
                esc(&canon(tcx, it.def_id)),
                tit.map(|s| esc(&s)).unwrap_or("null".into())
            ));
        }
    }
    let (file, line, _, _) = span_loc(tcx, tcx.def_span(did));
    let _ = writeln!(
        out,
        "{{\"k\":\"impl\",\"self_ty\":{},\"trait\":{},\"file\":{},\"line\":{},\"fns\":[{}]}}",
        esc(&ty_str(self_ty)),
        tr.map(|s| esc(&s)).unwrap_or("null".into()),
        esc(&file),
        line,
        items.join(",")
    );
}

fn vis_str<'tcx>(tcx: TyCtxt<'tcx>, did: DefId) -> String {
    match tcx.visibility(did) {
        ty::Visibility::Public => "pub".into(),
        ty::Visibility::Restricted(m) => {
            if m.is_crate_root() {
                "crate".into()
            } else {
                format!("in:{}", path_of(tcx, m))
            }
        }
    }
}

fn dump_adt<'tcx>(tcx: TyCtxt<'tcx>, did: DefId, out: &mut String) {
    let adt = tcx.adt_def(did);
    let (file, line, _, _) = span_loc(tcx, tcx.def_span(did));
    let mut vs = Vec::new();
    for (vidx, v) in adt.variants().iter_enumerated() {
        let discr = if adt.is_enum() {
            format!("{}", adt.discriminant_for_variant(tcx, vidx).val)
        } else {
            "null".into()
        };
        let mut fs = Vec::new();
        for f in v.fields.iter() {
            let fty = tcx.type_of(f.did).instantiate_identity().skip_norm_wip();
            fs.push(format!(
                "{{\"name\":{},\"ty\":{},\"vis\":{}}}",
                esc(f.name.as_str()),
                esc(&ty_str(fty)),
                esc(&vis_str(tcx, f.did))
            ));
        }
        vs.push(format!("{{\"name\":{},\"discr\":{},\"fields\":[{}]}}", esc(v.name.as_str()), discr, fs.join(",")));
    }
    let kind = if adt.is_enum() { "enum" } else if adt.is_union() { "union" } else { "struct" };
    let _ = writeln!(
        out,
        "{{\"k\":\"adt\",\"id\":{},\"kind\":\"{}\",\"vis\":{},\"file\":{},\"line\":{},\"variants\":[{}]}}",
        esc(&canon(tcx, did)),
        kind,
        esc(&vis_str(tcx, did)),
        esc(&file),
        line,
        vs.join(",")
    );
}

fn const_value_json<'tcx>(tcx: TyCtxt<'tcx>, val: ConstValue, t: Ty<'tcx>, depth: usize) -> String {
    // scalars
    if let ConstValue::Scalar(s) = val {
        if let Ok(si) = s.try_to_scalar_int() {
            return scalar_json(si, t);
        }
    }
    if let ConstValue::ZeroSized = val {
        return format!("{{\"zst\":{}}}", esc(&ty_str(t)));
    }
    if depth > 6 {
        return "null".into();
    }
    // aggregates
    match t.kind() {
        ty::Adt(..) | ty::Array(..) | ty::Tuple(..) => {
            if let Some(d) = tcx.try_destructure_mir_constant_for_user_output(val, t) {
                let mut fs = Vec::new();
                for (fv, fty) in d.fields.iter() {
                    fs.push(const_value_json(tcx, *fv, *fty, depth + 1));
                }
                let variant = match (d.variant, t.kind()) {
                    (Some(v), ty::Adt(adt, _)) if adt.is_enum() => esc(adt.variant(v).name.as_str()),
                    _ => "null".into(),
                };
                return format!("{{\"ty\":{},\"variant\":{},\"fields\":[{}]}}", esc(&ty_str(t)), variant, fs.join(","));
            }
            "null".into()
        }
        _ => "null".into(),
    }
}

fn scalar_json<'tcx>(si: ty::ScalarInt, t: Ty<'tcx>) -> String {
    let size = si.size();
    let bits = si.to_bits(size);
    match t.kind() {
        ty::Bool => (bits != 0).to_string(),
        ty::Int(_) => {
            let v = size.sign_extend(bits) as i128;
            if v.unsigned_abs() < (1u128 << 53) { v.to_string() } else { format!("\"{}\"", v) }
        }
        _ => {
            if bits < (1u128 << 53) { bits.to_string() } else { format!("\"{}\"", bits) }
        }
    }
}

fn dump_const<'tcx>(tcx: TyCtxt<'tcx>, ldid: LocalDefId, out: &mut String) {
    let did = ldid.to_def_id();
    // only monomorphic consts with a body
    if tcx.generics_of(did).requires_monomorphization(tcx) {
        return;
    }
    if tcx.hir_maybe_body_owned_by(ldid).is_none() {
        return;
    }
    let t = tcx.type_of(did).instantiate_identity().skip_norm_wip();
    let t = tcx.try_normalize_erasing_regions(TypingEnv::fully_monomorphized(), rustc_middle::ty::Unnormalized::new_wip(t)).unwrap_or(t);
    let val = match tcx.const_eval_poly(did) {
        Ok(v) => v,
        Err(_) => return,
    };
    let js = const_value_json(tcx, val, t, 0);
    let (file, line, _, _) = span_loc(tcx, tcx.def_span(did));
    let _ = writeln!(
        out,
        "{{\"k\":\"const\",\"id\":{},\"ty\":{},\"val\":{},\"file\":{},\"line\":{}}}",
        esc(&canon(tcx, did)),
        esc(&ty_str(t)),
        js,
        esc(&file),
        line
    );
}

// ---------------------------------------------------------------------------------------------
// function bodies

struct Cx<'tcx, 'a> {
    tcx: TyCtxt<'tcx>,
    body: &'a Body<'tcx>,
    env: TypingEnv<'tcx>,
}

fn dump_fn<'tcx>(tcx: TyCtxt<'tcx>, ldid: LocalDefId, kind: DefKind, out: &mut String) {
    let did = ldid.to_def_id();
    let (file, line, end, _) = span_loc(tcx, tcx.def_span(did));
    let vis = match kind {
        DefKind::Fn | DefKind::AssocFn => vis_str(tcx, did),
        _ => "closure".into(),
    };
    // parent impl info
    let mut impl_trait = "null".to_string();
    let mut self_ty = "null".to_string();
    let mut trait_item = "null".to_string();
    if kind == DefKind::AssocFn {
        let parent = tcx.parent(did);
        if let DefKind::Impl { .. } = tcx.def_kind(parent) {
            self_ty = esc(&ty_str(tcx.type_of(parent).instantiate_identity().skip_norm_wip()));
            if let Some(tr) = tcx.impl_opt_trait_ref(parent) {
                impl_trait = esc(&canon(tcx, tr.instantiate_identity().skip_norm_wip().def_id));
            }
            if let Some(ti) = tcx.associated_item(did).trait_item_def_id() {
                trait_item = esc(&canon(tcx, ti));
            }
        } else if let DefKind::Trait = tcx.def_kind(parent) {
            impl_trait = esc(&canon(tcx, parent));
            self_ty = "\"Self\"".into();
            trait_item = esc(&canon(tcx, did));
        }
    }
    let generic = tcx.generics_of(did).requires_monomorphization(tcx);
    let is_const = tcx.is_const_fn(did);
    let body: &Body<'tcx> = if is_const && kind != DefKind::Closure {
        tcx.mir_for_ctfe(did)
    } else {
        tcx.optimized_mir(did)
    };
    let id = canon(tcx, did);
    let hdr = format!(
        "\"path\":{},\"file\":{},\"line\":{},\"end\":{},\"vis\":{},\"impl_trait\":{},\"self_ty\":{},\"trait_item\":{},\"generic\":{},",
        esc(&path_of(tcx, did)), esc(&file), line, end, esc(&vis), impl_trait, self_ty, trait_item, generic);
    dump_body(tcx, did, body, &id, &hdr, out);
    for (pi, pbody) in tcx.promoted_mir(did).iter_enumerated() {
        let pid = format!("{}::{{promoted#{}}}", id, pi.as_usize());
        let phdr = format!(
            "\"path\":{},\"file\":{},\"line\":{},\"end\":{},\"vis\":\"promoted\",\"impl_trait\":null,\"self_ty\":null,\"trait_item\":null,\"generic\":{},",
            esc(&path_of(tcx, did)), esc(&file), line, end, generic);
        dump_body(tcx, did, pbody, &pid, &phdr, out);
    }
}

fn dump_body<'tcx>(tcx: TyCtxt<'tcx>, did: DefId, body: &Body<'tcx>, id: &str, hdr: &str, out: &mut String) {
    let cx = Cx { tcx, body, env: TypingEnv::post_analysis(tcx, did) };

    let _ = write!(out, "{{\"k\":\"fn\",\"id\":{},{}\"argc\":{},", esc(id), hdr, body.arg_count);
    // locals
    out.push_str("\"locals\":[");
    for (i, ld) in body.local_decls.iter().enumerate() {
        if i > 0 {
            out.push(',');
        }
        out.push_str(&esc(&ty_str(ld.ty)));
    }
    out.push_str("],\"names\":{");
    let mut first = true;
    for vdi in body.var_debug_info.iter() {
        if let mir::VarDebugInfoContents::Place(p) = &vdi.value {
            if !first {
                out.push(',');
            }
            first = false;
            let _ = write!(out, "{}:{}", esc(&format!("{}", vdi.name)), place_json(&cx, p));
        }
    }
    out.push_str("},\"blocks\":[");
    for (bi, bb) in body.basic_blocks.iter().enumerate() {
        if bi > 0 {
            out.push(',');
        }
        out.push_str("{\"s\":[");
        let mut firsts = true;
        for st in bb.statements.iter() {
            if let Some(js) = stmt_json(&cx, st) {
                if !firsts {
                    out.push(',');
                }
                firsts = false;
                out.push_str(&js);
            }
        }
        out.push_str("],\"t\":");
        out.push_str(&term_json(&cx, bb.terminator()));
        if bb.is_cleanup {
            out.push_str(",\"cleanup\":true");
        }
        out.push('}');
    }
    out.push_str("]}\n");
}

fn place_json<'tcx>(cx: &Cx<'tcx, '_>, p: &Place<'tcx>) -> String {
    let mut s = format!("{{\"l\":{}", p.local.as_usize());
    if !p.projection.is_empty() {
        s.push_str(",\"p\":[");
        let mut cur_ty = mir::PlaceTy::from_ty(cx.body.local_decls[p.local].ty);
        for (i, e) in p.projection.iter().enumerate() {
            if i > 0 {
                s.push(',');
            }
            match e {
                ProjectionElem::Deref => s.push_str("\"*\""),
                ProjectionElem::Field(f, _) => {
                    // resolve field name
                    let (name, of) = match cur_ty.ty.kind() {
                        ty::Adt(adt, _) => {
                            let v = match cur_ty.variant_index {
                                Some(v) => adt.variant(v),
                                None => adt.non_enum_variant(),
                            };
                            (v.fields[f].name.to_string(), canon(cx.tcx, adt.did()))
                        }
                        _ => (format!("{}", f.as_usize()), String::new()),
                    };
                    let _ = write!(s, "{{\"f\":{},\"i\":{},\"of\":{}}}", esc(&name), f.as_usize(), esc(&of));
                }
                ProjectionElem::Index(l) => {
                    let _ = write!(s, "{{\"idx\":{}}}", l.as_usize());
                }
                ProjectionElem::ConstantIndex { offset, min_length, from_end } => {
                    let _ = write!(s, "{{\"cidx\":{},\"min\":{},\"end\":{}}}", offset, min_length, from_end);
                }
                ProjectionElem::Subslice { from, to, from_end } => {
                    let _ = write!(s, "{{\"sub\":[{},{}],\"end\":{}}}", from, to, from_end);
                }
                ProjectionElem::Downcast(name, v) => {
                    let n = name.map(|n| n.to_string()).unwrap_or_else(|| format!("{}", v.as_usize()));
                    let _ = write!(s, "{{\"as\":{}}}", esc(&n));
                }
                ProjectionElem::OpaqueCast(_) => s.push_str("\"opaque\""),
                ProjectionElem::UnwrapUnsafeBinder(_) => s.push_str("\"unbind\""),
            }
            cur_ty = cur_ty.projection_ty(cx.tcx, e);
        }
        s.push(']');
    }
    s.push('}');
    s
}

fn fn_ref_json<'tcx>(cx: &Cx<'tcx, '_>, did: DefId, args: ty::GenericArgsRef<'tcx>) -> String {
    let tcx = cx.tcx;
    let declared = canon_s(tcx, did);
    let mut resolved = declared.clone();
    let mut resolved_did = did;
    let mut res_kind = "direct";
    let is_trait_item = matches!(tcx.def_kind(did), DefKind::AssocFn) && matches!(tcx.def_kind(tcx.parent(did)), DefKind::Trait);
    if is_trait_item {
        res_kind = "trait";
    }
    // try_resolve can ICE on ill-formed args; guard by only resolving when args have no infer/bound vars
    if let Ok(Some(inst)) = Instance::try_resolve(tcx, cx.env, did, args) {
        let rd = inst.def_id();
        let r = canon_s(tcx, rd);
        match inst.def {
            ty::InstanceKind::Item(_) => {
                if is_trait_item && r != declared {
                    res_kind = "resolved";
                } else if is_trait_item {
                    // resolved to the trait's default method body
                    res_kind = if tcx.defaultness(did).has_value() && !args_have_params(args) { "default" } else { "trait" };
                }
                resolved = r;
                resolved_did = rd;
            }
            ty::InstanceKind::Virtual(..) => {
                res_kind = "virtual";
            }
            ty::InstanceKind::ClosureOnceShim { .. } | ty::InstanceKind::FnPtrShim(..) => {
                resolved = r;
                resolved_did = rd;
                res_kind = "shim";
            }
            _ => {
                res_kind = "builtin";
            }
        }
    }
    let mut ga = Vec::new();
    for a in args.iter() {
        if let Some(t) = a.as_type() {
            ga.push(esc(&ty_str(t)));
        } else if let Some(c) = a.as_const() {
            ga.push(esc(&format!("{}", c)));
        }
    }
    format!(
        "{{\"fn\":{},\"fnx\":{},\"decl\":{},\"res\":\"{}\",\"local\":{},\"ga\":[{}]}}",
        esc(&resolved),
        esc(&canon(tcx, resolved_did)),
        esc(&declared),
        res_kind,
        resolved_did.is_local(),
        ga.join(",")
    )
}

fn args_have_params<'tcx>(args: ty::GenericArgsRef<'tcx>) -> bool {
    use rustc_middle::ty::TypeVisitableExt;
    args.has_param()
}

fn const_json<'tcx>(cx: &Cx<'tcx, '_>, c: &Const<'tcx>) -> String {
    let tcx = cx.tcx;
    let t = c.ty();
    if let ty::FnDef(did, args) = t.kind() {
        return fn_ref_json(cx, *did, args);
    }
    // try to evaluate to a scalar
    match c {
        Const::Val(v, t) => {
            let j = const_value_json(tcx, *v, *t, 3);
            if j != "null" {
                return format!("{{\"c\":{},\"ty\":{}}}", j, esc(&ty_str(*t)));
            }
        }
        Const::Unevaluated(uv, t) => {
            // named constant: give its path and, if monomorphic, its value
            let p = canon(tcx, uv.def);
            let mut valj = "null".to_string();
            if !args_have_params(uv.args) {
                if let Ok(v) = c.eval(tcx, cx.env, rustc_span::DUMMY_SP) {
                    valj = const_value_json(tcx, v, *t, 3);
                }
            }
            if let Some(pi) = uv.promoted {
                return format!("{{\"c\":{},\"ty\":{},\"promoted\":{}}}", valj, esc(&ty_str(*t)), esc(&format!("{}::{{promoted#{}}}", p, pi.as_usize())));
            }
            return format!("{{\"c\":{},\"ty\":{},\"named\":{}}}", valj, esc(&ty_str(*t)), esc(&p));
        }
        Const::Ty(..) => {
            if let Some(si) = c.try_eval_scalar_int(tcx, cx.env) {
                return format!("{{\"c\":{},\"ty\":{}}}", scalar_json(si, t), esc(&ty_str(t)));
            }
        }
    }
    format!("{{\"c\":null,\"ty\":{},\"dbg\":{}}}", esc(&ty_str(t)), esc(&ty::print::with_no_trimmed_paths!(format!("{}", c))))
}

fn operand_json<'tcx>(cx: &Cx<'tcx, '_>, o: &Operand<'tcx>) -> String {
    match o {
        Operand::Copy(p) => place_json(cx, p),
        Operand::Move(p) => {
            let mut s = place_json(cx, p);
            s.pop();
            s.push_str(",\"mv\":1}");
            s
        }
        Operand::Constant(c) => const_json(cx, &c.const_),
        #[allow(unreachable_patterns)]
        _ => "{\"c\":null,\"ty\":\"?\"}".into(),
    }
}

fn line_of<'tcx>(cx: &Cx<'tcx, '_>, sp: Span) -> (usize, bool) {
    let (_, l, _, e) = span_loc(cx.tcx, sp);
    (l, e)
}

fn stmt_json<'tcx>(cx: &Cx<'tcx, '_>, st: &mir::Statement<'tcx>) -> Option<String> {
    match &st.kind {
        StatementKind::Assign(b) => {
            let (place, rv) = &**b;
            let (ln, exp) = line_of(cx, st.source_info.span);
            Some(format!(
                "{{\"d\":{},\"r\":{},\"ln\":{}{}}}",
                place_json(cx, place),
                rvalue_json(cx, rv),
                ln,
                if exp { ",\"x\":1" } else { "" }
            ))
        }
        StatementKind::SetDiscriminant { place, variant_index } => {
            let (ln, _) = line_of(cx, st.source_info.span);
            Some(format!("{{\"d\":{},\"r\":{{\"k\":\"setdiscr\",\"v\":{}}},\"ln\":{}}}", place_json(cx, place), variant_index.as_usize(), ln))
        }
        _ => None,
    }
}

fn binop_str(op: BinOp) -> &'static str {
    match op {
        BinOp::Add => "+",
        BinOp::AddUnchecked => "+u",
        BinOp::AddWithOverflow => "+?",
        BinOp::Sub => "-",
        BinOp::SubUnchecked => "-u",
        BinOp::SubWithOverflow => "-?",
        BinOp::Mul => "*",
        BinOp::MulUnchecked => "*u",
        BinOp::MulWithOverflow => "*?",
        BinOp::Div => "/",
        BinOp::Rem => "%",
        BinOp::BitXor => "^",
        BinOp::BitAnd => "&",
        BinOp::BitOr => "|",
        BinOp::Shl => "<<",
        BinOp::ShlUnchecked => "<<u",
        BinOp::Shr => ">>",
        BinOp::ShrUnchecked => ">>u",
        BinOp::Eq => "==",
        BinOp::Lt => "<",
        BinOp::Le => "<=",
        BinOp::Ne => "!=",
        BinOp::Ge => ">=",
        BinOp::Gt => ">",
        BinOp::Cmp => "cmp",
        BinOp::Offset => "offset",
    }
}

fn rvalue_json<'tcx>(cx: &Cx<'tcx, '_>, rv: &Rvalue<'tcx>) -> String {
    match rv {
        Rvalue::Use(o, _) => format!("{{\"k\":\"use\",\"o\":{}}}", operand_json(cx, o)),
        Rvalue::Repeat(o, n) => {
            let nn = n.try_to_target_usize(cx.tcx).map(|v| v.to_string()).unwrap_or("null".into());
            format!("{{\"k\":\"repeat\",\"o\":{},\"n\":{}}}", operand_json(cx, o), nn)
        }
        Rvalue::Ref(_, bk, p) => {
            let m = matches!(bk, mir::BorrowKind::Mut { .. });
            format!("{{\"k\":\"ref\",\"mut\":{},\"p\":{}}}", m, place_json(cx, p))
        }
        Rvalue::RawPtr(_, p) => format!("{{\"k\":\"rawptr\",\"p\":{}}}", place_json(cx, p)),
        Rvalue::Cast(kind, o, t) => {
            let ks = format!("{:?}", kind);
            let ks = ks.split('(').next().unwrap_or("").to_string();
            format!("{{\"k\":\"cast\",\"ck\":{},\"o\":{},\"ty\":{}}}", esc(&ks), operand_json(cx, o), esc(&ty_str(*t)))
        }
        Rvalue::BinaryOp(op, b) => {
            let (a, c) = &**b;
            format!("{{\"k\":\"bin\",\"op\":\"{}\",\"a\":{},\"b\":{}}}", binop_str(*op), operand_json(cx, a), operand_json(cx, c))
        }
        Rvalue::UnaryOp(op, o) => format!("{{\"k\":\"un\",\"op\":{},\"o\":{}}}", esc(&format!("{:?}", op)), operand_json(cx, o)),
        Rvalue::Discriminant(p) => format!("{{\"k\":\"discr\",\"p\":{},\"ty\":{}}}", place_json(cx, p), esc(&ty_str(p.ty(cx.body, cx.tcx).ty))),
        Rvalue::Aggregate(kind, ops) => {
            let mut head = String::new();
            let mut fnames: Vec<String> = Vec::new();
            match &**kind {
                AggregateKind::Array(t) => {
                    let _ = write!(head, "\"ak\":\"array\",\"ty\":{}", esc(&ty_str(*t)));
                }
                AggregateKind::Tuple => head.push_str("\"ak\":\"tuple\""),
                AggregateKind::Adt(did, vidx, _, _, _) => {
                    let adt = cx.tcx.adt_def(*did);
                    let v = adt.variant(*vidx);
                    for f in v.fields.iter() {
                        fnames.push(f.name.to_string());
                    }
                    let _ = write!(head, "\"ak\":\"adt\",\"adt\":{},\"variant\":{}", esc(&canon(cx.tcx, *did)), esc(v.name.as_str()));
                }
                AggregateKind::Closure(did, _) => {
                    let _ = write!(head, "\"ak\":\"closure\",\"fn\":{}", esc(&canon(cx.tcx, *did)));
                }
                _ => head.push_str("\"ak\":\"other\""),
            }
            let mut os = Vec::new();
            for o in ops.iter() {
                os.push(operand_json(cx, o));
            }
            let fns: Vec<String> = fnames.iter().map(|s| esc(s)).collect();
            format!("{{\"k\":\"agg\",{},\"fields\":[{}],\"ops\":[{}]}}", head, fns.join(","), os.join(","))
        }
        Rvalue::CopyForDeref(p) => format!("{{\"k\":\"use\",\"o\":{}}}", place_json(cx, p)),
        Rvalue::ThreadLocalRef(d) => format!("{{\"k\":\"tls\",\"path\":{}}}", esc(&path_of(cx.tcx, *d))),
        Rvalue::WrapUnsafeBinder(o, _) => format!("{{\"k\":\"use\",\"o\":{}}}", operand_json(cx, o)),
    }
}

fn term_json<'tcx>(cx: &Cx<'tcx, '_>, t: &mir::Terminator<'tcx>) -> String {
    let (ln, exp) = line_of(cx, t.source_info.span);
    let tail = format!(",\"ln\":{}{}}}", ln, if exp { ",\"x\":1" } else { "" });
    let body = match &t.kind {
        TerminatorKind::Goto { target } => format!("{{\"k\":\"goto\",\"to\":{}", target.as_usize()),
        TerminatorKind::SwitchInt { discr, targets } => {
            let mut arms = Vec::new();
            for (v, bb) in targets.iter() {
                let vs = if v < (1u128 << 53) { v.to_string() } else { format!("\"{}\"", v) };
                arms.push(format!("[{},{}]", vs, bb.as_usize()));
            }
            format!(
                "{{\"k\":\"switch\",\"o\":{},\"arms\":[{}],\"else\":{}",
                operand_json(cx, discr),
                arms.join(","),
                targets.otherwise().as_usize()
            )
        }
        TerminatorKind::Return => "{\"k\":\"return\"".into(),
        TerminatorKind::Unreachable => "{\"k\":\"unreachable\"".into(),
        TerminatorKind::UnwindResume => "{\"k\":\"resume\"".into(),
        TerminatorKind::UnwindTerminate(_) => "{\"k\":\"abort\"".into(),
        TerminatorKind::Drop { place, target, .. } => {
            format!("{{\"k\":\"drop\",\"p\":{},\"to\":{}", place_json(cx, place), target.as_usize())
        }
        TerminatorKind::Call { func, args, destination, target, .. } => {
            let mut as_ = Vec::new();
            for a in args.iter() {
                as_.push(operand_json(cx, &a.node));
            }
            format!(
                "{{\"k\":\"call\",\"f\":{},\"args\":[{}],\"d\":{},\"to\":{}",
                operand_json(cx, func),
                as_.join(","),
                place_json(cx, destination),
                target.map(|b| b.as_usize().to_string()).unwrap_or("null".into())
            )
        }
        TerminatorKind::TailCall { func, args, .. } => {
            let mut as_ = Vec::new();
            for a in args.iter() {
                as_.push(operand_json(cx, &a.node));
            }
            format!("{{\"k\":\"tailcall\",\"f\":{},\"args\":[{}]", operand_json(cx, func), as_.join(","))
        }
        TerminatorKind::Assert { cond, expected, msg, target, .. } => {
            use rustc_middle::mir::AssertKind as AK;
            let (mk, ops): (String, Vec<String>) = match &**msg {
                AK::BoundsCheck { len, index } => ("bounds".into(), vec![operand_json(cx, len), operand_json(cx, index)]),
                AK::Overflow(op, a, b) => (format!("overflow{}", binop_str(*op)), vec![operand_json(cx, a), operand_json(cx, b)]),
                AK::OverflowNeg(a) => ("overflow-neg".into(), vec![operand_json(cx, a)]),
                AK::DivisionByZero(a) => ("div0".into(), vec![operand_json(cx, a)]),
                AK::RemainderByZero(a) => ("rem0".into(), vec![operand_json(cx, a)]),
                AK::MisalignedPointerDereference { .. } => ("misaligned".into(), vec![]),
                AK::NullPointerDereference => ("nullptr".into(), vec![]),
                _ => ("other".into(), vec![]),
            };
            format!(
                "{{\"k\":\"assert\",\"cond\":{},\"exp\":{},\"msg\":{},\"ops\":[{}],\"to\":{}",
                operand_json(cx, cond),
                expected,
                esc(&mk),
                ops.join(","),
                target.as_usize()
            )
        }
        TerminatorKind::FalseEdge { real_target, .. } => format!("{{\"k\":\"goto\",\"to\":{}", real_target.as_usize()),
        TerminatorKind::FalseUnwind { real_target, .. } => format!("{{\"k\":\"goto\",\"to\":{}", real_target.as_usize()),
        _ => "{\"k\":\"other\"".into(),
    };
    format!("{}{}", body, tail)
}

#!/bin/bash
# confirm_seed.sh <worktree> <name>: re-verify a sub-agent's seeded change myself:
#  1. demo fails with patch, passes without; 2. full existing suite passes with the patch (demo excluded)
# then store it under /verif/seeded/<name>/ with my own log.
WT=$1; NAME=$2
set -u
cd $WT || exit 2
export CARGO_TARGET_DIR=$WT/target CARGO_NET_OFFLINE=true
OUT=/verif/seeded/$NAME; mkdir -p $OUT
[ -f seed/patch.diff ] && cp seed/patch.diff seed/demo.diff seed/meta.json $OUT/
DEMO=$(python3 -c "import json,re;print(re.sub(r'/tmp/wt-[A-Za-z0-9]+', '$WT', json.load(open('$OUT/meta.json'))['demo_cmd']))")
LOG=$OUT/confirm.log; : > $LOG
# normalise: start from pristine tree, apply demo only
git checkout -q -- . ; git clean -fdq -e target -e seed
git apply $OUT/demo.diff || { echo "demo.diff does not apply" >> $LOG; }
echo "== demo WITHOUT patch: $DEMO" >> $LOG
( eval "$DEMO" ) >> $LOG.demo0 2>&1; R0=$?
echo "exit=$R0" >> $LOG
git apply $OUT/patch.diff || { echo "patch.diff does not apply" >> $LOG; exit 3; }
echo "== demo WITH patch" >> $LOG
( eval "$DEMO" ) >> $LOG.demo1 2>&1; R1=$?
echo "exit=$R1" >> $LOG
# full suite with the patch but without the demo
git apply -R $OUT/demo.diff
echo "== full suite WITH patch (demo removed)" >> $LOG
cargo test --workspace --offline --no-fail-fast -j8 > $LOG.suite 2>&1; RS=$?
grep -E "^test result|FAILED|failed" $LOG.suite | sort | uniq -c >> $LOG
echo "suite_exit=$RS" >> $LOG
echo "SUMMARY demo_without=$R0 demo_with=$R1 suite=$RS" >> $LOG
tail -1 $LOG

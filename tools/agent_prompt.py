#!/usr/bin/env python3
"""Print the prompt given to a mutation sub-agent for one property (only the property text + worktree path)."""
import json, sys
pid = sys.argv[1]
wt = sys.argv[2] if len(sys.argv) > 2 else f"/tmp/wt-{pid}"
extra = sys.argv[3] if len(sys.argv) > 3 else ""
for l in open('/verif/properties.jsonl'):
    d = json.loads(l)
    if d['id'] == pid:
        break
else:
    sys.exit("no such property")
print(f"""You are helping to evaluate verification tooling for the Rust project miden-vm (a STARK-based zero-knowledge VM: assembler, processor, AIR constraints, prover, verifier). You have your own scratch git worktree of the repository at {wt} (a detached checkout of the pinned commit). Work ONLY inside {wt}. Never read or write /repo or /verif. The sandbox is offline: always pass --offline to cargo and set CARGO_TARGET_DIR={wt}/target (e.g. `cd {wt} && CARGO_TARGET_DIR={wt}/target cargo test --offline -p miden-processor`). 16 cores are shared with other jobs; do not use more than 6 build jobs (-j6).

Here is one semantic property that miden-vm is supposed to satisfy:

  id: {d['id']}
  title: {d['title']}
  statement: {d['statement']}
  quantified over: {d['quantifier']['text']}
  why the test suite cannot settle it: {d['why_tests_cant']}
  code anchors (files): {', '.join(d['anchors'].get('files', []))}
  mechanisms: {'; '.join(m['name'] + ' @ ' + m['where'] for m in d['anchors'].get('mechanism', []))}

Your task: produce ONE realistic source change (a plausible bug a developer could introduce: an off-by-one, a dropped check, a wrong index, a swapped argument, a missed case, an omitted table entry, two cooperating edits that each look fine alone ...) to the non-test source code of miden-vm that BREAKS this property, while
  (a) the workspace still compiles (`cargo build --workspace --offline` and `cargo test --workspace --no-run --offline`), and
  (b) the ENTIRE existing test suite still passes unedited: `cargo test --workspace --offline` (this takes several minutes; run it in full at the end and check every test binary reports ok), and
  (c) the breakage needs something specific to manifest - an unusual input, a particular multi-step sequence, a corner value, a rarely used instruction/variant/configuration, a particular nesting - NOT something ordinary use would expose at once. Subtle is better than blatant. Do not touch tests, docs, or build scripts; do not change public API signatures. Keep the change small (a few lines, at most two sites). {extra}

Then write a demonstration: a new test (put it in a new file, e.g. a new integration test file under the relevant crate's tests/ directory, or a new #[test] in a new module file) that FAILS with your change applied and PASSES on the original code. Verify both directions yourself (use `git stash` / `git apply -R` to flip the change).

Deliver, inside {wt}/seed/ :
  - patch.diff : `git diff` of ONLY the source change (no demonstration, no seed/ dir), applicable with `git apply` at the pinned commit;
  - demo.diff : a diff (or the new file(s) plus exact placement instructions in meta.json) adding ONLY the demonstration test;
  - meta.json : {{"property": "{d['id']}", "summary": "<what was changed and why it breaks the property>", "needs_to_manifest": "<the specific input/sequence/configuration needed>", "demo_cmd": "<exact cargo test command that runs only the demonstration>", "suite_cmd": "<the full-suite command you ran>", "suite_result": "<summary of pass counts>"}}
Leave the worktree with the source change and the demo both applied (uncommitted is fine). Do not delete {wt}/target. In your final answer, summarise the change in 5 lines or less and state exactly what you verified (demo fails with / passes without; full suite passes with).""")
